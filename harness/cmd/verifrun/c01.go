package main

import (
	"context"
	"encoding/json"
	"fmt"
	"math/rand"
	"os"
	"runtime"
	"sort"
	"sync"
	"sync/atomic"
	"time"

	theine "github.com/Yiling-J/theine-go"
	"github.com/Yiling-J/theine-go/internal"
	"github.com/anishathalye/porcupine"
)

// C01 — reads return only the latest value written for that key.
//
// Many short concurrent histories are recorded at the client boundary (unique
// written values, logical timestamps around every call, one read event per
// Range visit, loader-backed Gets split into "ran the loader" = write and
// "shared / hit" = read) and checked per key with porcupine against mapModel.

func init() { registry["C01"] = runC01 }

type c01Cfg struct {
	Kind       string `json:"kind"` // plain | loading
	Doorkeeper bool   `json:"doorkeeper"`
	Pool       bool   `json:"entry_pool"`
	MaxSize    int64  `json:"maxsize"`
	Clients    int    `json:"clients"`
	Ops        int    `json:"ops_per_client"`
	Keys       int    `json:"keys"`
	TTLs       bool   `json:"ttls"`
	Delay      int    `json:"h1_delay_mode"`
	Ranges     bool   `json:"ranges"`
	SameShard  bool   `json:"keys_share_a_shard"`
	SlowRange  bool   `json:"range_callbacks_take_time"`
}

type loadTok struct {
	loaded bool
	val    int64
}
type tokKeyT struct{}

var loadSeq atomic.Int64

type c01API struct {
	set    func(k int, v int64, ttl time.Duration) bool
	get    func(k int) (v int64, ok bool, loaded bool)
	del    func(k int)
	rangef func(f func(k int, v int64) bool)
	close  func()
	store  *internal.Store[int, int64]
}

func c01Build(cfg c01Cfg, rng *rand.Rand) (*c01API, error) {
	b := theine.NewBuilder[int, int64](cfg.MaxSize).Doorkeeper(cfg.Doorkeeper).UseEntryPool(cfg.Pool)
	if cfg.Kind == "plain" {
		c, err := b.Build()
		if err != nil {
			return nil, err
		}
		return &c01API{
			set: func(k int, v int64, ttl time.Duration) bool {
				if ttl != 0 {
					return c.SetWithTTL(k, v, 1, ttl)
				}
				return c.Set(k, v, 1)
			},
			get:    func(k int) (int64, bool, bool) { v, ok := c.Get(k); return v, ok, false },
			del:    c.Delete,
			rangef: c.Range,
			close:  c.Close,
			store:  c.VerifStore(),
		}, nil
	}
	ttls := cfg.TTLs
	c, err := b.Loading(func(ctx context.Context, k int) (theine.Loaded[int64], error) {
		tok := ctx.Value(tokKeyT{}).(*loadTok)
		n := loadSeq.Add(1)
		v := int64(1)<<62 | n<<8 | int64(k&0xff)
		tok.loaded, tok.val = true, v
		if n%3 == 0 {
			runtime.Gosched()
		}
		var ttl time.Duration
		if ttls && n%4 == 0 {
			ttl = time.Duration(1+n%5000) * time.Microsecond
		}
		return theine.Loaded[int64]{Value: v, Cost: 1, TTL: ttl}, nil
	}).Build()
	if err != nil {
		return nil, err
	}
	return &c01API{
		set: func(k int, v int64, ttl time.Duration) bool {
			if ttl != 0 {
				return c.SetWithTTL(k, v, 1, ttl)
			}
			return c.Set(k, v, 1)
		},
		get: func(k int) (int64, bool, bool) {
			tok := &loadTok{}
			v, err := c.Get(context.WithValue(context.Background(), tokKeyT{}, tok), k)
			if err != nil {
				return 0, false, false
			}
			return v, true, tok.loaded
		},
		del:    c.Delete,
		rangef: c.Range,
		close:  c.Close,
		store:  c.VerifStore(),
	}, nil
}

// c01History runs one concurrent history and returns the recorded operations.
func c01History(cfg c01Cfg, seed int64) ([]hop, error) {
	rng := rand.New(rand.NewSource(seed))
	api, err := c01Build(cfg, rng)
	if err != nil {
		return nil, err
	}
	defer api.close()
	// key table: either 0..Keys-1 (spread over the shards) or Keys keys that all live in one
	// shard, so that a Range inside that shard has neighbours that other clients are changing
	keyTab := make([]int, 0, cfg.Keys)
	want := api.store.VerifShardOf(0)
	for k := 0; len(keyTab) < cfg.Keys; k++ {
		if !cfg.SameShard || api.store.VerifShardOf(k) == want {
			keyTab = append(keyTab, k)
		}
	}
	logs := make([][]hop, cfg.Clients)
	var wg sync.WaitGroup
	start := make(chan struct{})
	for cl := 0; cl < cfg.Clients; cl++ {
		wr := rand.New(rand.NewSource(rng.Int63()))
		wg.Add(1)
		go func(cl int) {
			defer wg.Done()
			lg := make([]hop, 0, cfg.Ops+64)
			<-start
			for i := 0; i < cfg.Ops; i++ {
				k := keyTab[wr.Intn(cfg.Keys)]
				x := wr.Intn(100)
				switch {
				case x < 28:
					v := int64(cl+1)<<40 | int64(i+1)
					var ttl time.Duration
					if cfg.TTLs && wr.Intn(4) == 0 {
						ttl = time.Duration(1+wr.Intn(5000)) * time.Microsecond
					}
					t0 := tick()
					ok := api.set(k, v, ttl)
					t1 := tick()
					kind := opSet
					if !ok {
						kind = opSetFalse
					}
					lg = append(lg, hop{Client: cl, Kind: kind, Key: k, Val: v, Call: t0, Ret: t1, TTL: int64(ttl)})
				case x < 45:
					t0 := tick()
					api.del(k)
					t1 := tick()
					lg = append(lg, hop{Client: cl, Kind: opDelete, Key: k, Call: t0, Ret: t1})
				case x < 49 && cfg.Ranges:
					prev := tick()
					api.rangef(func(rk int, rv int64) bool {
						at := tick()
						lg = append(lg, hop{Client: cl, Kind: opRange, Key: rk, Val: rv, Call: prev, Ret: at})
						if cfg.SlowRange {
							// a user callback that takes time (the next visit's interval starts after it)
							switch wr.Intn(4) {
							case 0:
								time.Sleep(time.Duration(20+wr.Intn(200)) * time.Microsecond)
							case 1:
								for y := 1 + wr.Intn(20); y > 0; y-- {
									runtime.Gosched()
								}
							}
						}
						prev = tick()
						return true
					})
				default:
					t0 := tick()
					v, ok, loaded := api.get(k)
					t1 := tick()
					kind := opGetHit
					switch {
					case !ok:
						kind = opGetMiss
					case loaded:
						kind = opLoad
					case cfg.Kind == "loading":
						kind = opShared
					}
					lg = append(lg, hop{Client: cl, Kind: kind, Key: k, Val: v, Call: t0, Ret: t1})
				}
				if wr.Intn(16) == 0 {
					runtime.Gosched()
				}
			}
			logs[cl] = lg
		}(cl)
	}
	close(start)
	wg.Wait()
	var all []hop
	for _, lg := range logs {
		all = append(all, lg...)
	}
	return all, nil
}

func c01Check(r *Run, cfg any, hist []hop, label string) (illegal int) {
	byKey := splitByKey(hist)
	keys := make([]int, 0, len(byKey))
	for k := range byKey {
		keys = append(keys, k)
	}
	sort.Ints(keys)
	for _, k := range keys {
		ops := byKey[k]
		res := checkKey(ops, 30*time.Second)
		r.Count("key_histories_checked", 1)
		switch res {
		case porcupine.Unknown:
			r.Inconclusive(1)
			r.Count("checker_timeouts", 1)
		case porcupine.Illegal:
			illegal++
			core := shrink(ops)
			key, what := classify(core)
			full := ops
			sort.Slice(full, func(i, j int) bool { return full[i].Call < full[j].Call })
			r.Violate(key, fmt.Sprintf("%s: key %d is not linearizable: %s; core: %v", label, k, what, hopStrings(core)),
				map[string]any{"config": cfg, "key": k, "core": core, "core_text": hopStrings(core), "key_history": full})
		}
	}
	return
}

// c01LeaderWindow: the leader of a load has stored its value and released the
// shard lock but is parked (hook H5) before its in-flight record is
// unregistered. Another client reads the value, a Delete completes, then a
// Get is invoked. The recorded history is checked like any other.
// c01Storm: many goroutines Get a handful of keys of ONE shard from a loading cache so small that almost every Get
// misses, so loads of the same key and of neighbour keys start, are joined and finish all the time. The loader
// returns a value that names its key: a Get that comes back with a value made for another key (or made by a load
// that started after the Get returned) cannot be explained by any order of the operations. No history is recorded
// and no checker runs: tens of millions of Gets per minute reach windows of a few instructions.
func c01Storm(r *Run, idx int) {
	rng := r.Rng(int64(91000 + idx))
	defer r.Case(fmt.Sprintf("storm %d pool=%v", idx, idx%3 == 2 && r.Args["racepass"] == ""))()
	var seq atomic.Int64
	b := theine.NewBuilder[int, int64]([]int64{1, 2, 4}[rng.Intn(3)]).UseEntryPool(idx%3 == 2 && r.Args["racepass"] == "")
	c, err := b.Loading(func(ctx context.Context, k int) (theine.Loaded[int64], error) {
		n := seq.Add(1)
		if n%4 == 0 {
			// every fourth load fails, with an error whose Is method dawdles: whoever inspects the shared result
			// of a failed load with errors.Is does so slowly, and a result record recycled under it would by then
			// carry a neighbour key's value
			return theine.Loaded[int64]{}, stormErr{}
		}
		return theine.Loaded[int64]{Value: int64(k)<<40 | n, Cost: 1}, nil
	}).Build()
	if err != nil {
		r.Broken("build: %v", err)
		return
	}
	defer c.Close()
	st := c.VerifStore()
	var keys []int
	for k := 1; len(keys) < 6; k++ {
		if st.VerifShardOf(k) == st.VerifShardOf(1) {
			keys = append(keys, k)
		}
	}
	G := []int{4, 8, 16}[rng.Intn(3)]
	rounds := r.Pick(40000, 400000)
	scale := 1
	if r.Args["racepass"] != "" || raceEnabled {
		scale = 10 // under the race detector every Get costs an order of magnitude more
		rounds /= scale
	}
	var wrong atomic.Int64
	var first atomic.Value
	// round-synchronised: in every round all goroutines Get the same (just deleted, so absent) key at the same
	// instant - one becomes the leader of the load, the others join it or arrive just after - and the next round
	// does the same with a neighbour key of the shard straight away
	var round, done atomic.Int64
	var wg sync.WaitGroup
	for g := 0; g < G; g++ {
		wg.Add(1)
		go func() {
			defer wg.Done()
			for rd := int64(1); rd <= int64(rounds); rd++ {
				for round.Load() < rd {
					runtime.Gosched()
				}
				k := keys[int(rd)%len(keys)]
				if v, err := c.Get(context.Background(), k); err == nil && int(v>>40) != k {
					wrong.Add(1)
					first.CompareAndSwap(nil, fmt.Sprintf("round %d: Get(%d) returned %#x, a value the loader made for key %d", rd, k, v, v>>40))
				}
				done.Add(1)
			}
		}()
	}
	for rd := int64(1); rd <= int64(rounds); rd++ {
		c.Delete(keys[int(rd)%len(keys)])
		round.Store(rd)
		for done.Load() < rd*int64(G) {
			runtime.Gosched()
		}
	}
	wg.Wait()
	// free-running: no barrier between the Gets, so a load of a neighbour key can start while the waiters of the
	// previous load are still picking up its result
	free := r.Pick(30000, 300000) / scale
	for g := 0; g < G; g++ {
		wr := rand.New(rand.NewSource(rng.Int63()))
		wg.Add(1)
		go func() {
			defer wg.Done()
			for i := 0; i < free; i++ {
				k := keys[wr.Intn(len(keys))]
				if wr.Intn(12) == 0 {
					c.Delete(k)
					continue
				}
				if v, err := c.Get(context.Background(), k); err == nil && int(v>>40) != k {
					wrong.Add(1)
					first.CompareAndSwap(nil, fmt.Sprintf("free-running: Get(%d) returned %#x, a value the loader made for key %d", k, v, v>>40))
				}
			}
		}()
	}
	wg.Wait()
	per := rounds + free
	if w := wrong.Load(); w > 0 {
		r.Violate("value-of-another-key/concurrent-loads-in-one-shard", fmt.Sprintf("storm %d (%d goroutines, %d keys of one shard, loading cache): %d Gets returned a value that was loaded for another key (first: %v)", idx, G, len(keys), w, first.Load()),
			map[string]any{"storm": idx, "goroutines": G, "gets_per_goroutine": per})
	}
	r.Eval(1)
	r.Count("storm_gets", int64(G*per))
	r.Count("storm_loads", seq.Load())
	r.Distinct(fmt.Sprintf("storm/G%d", G))
}

// stormErr is a loader error whose comparison takes a moment (error types with an Is method are ordinary user code).
type stormErr struct{}

func (stormErr) Error() string { return "storm: load failed" }
func (stormErr) Is(error) bool {
	for i := 0; i < 3; i++ {
		runtime.Gosched()
	}
	time.Sleep(20 * time.Microsecond)
	return false
}

func c01LeaderWindow(r *Run, variant int) {
	cfg := c01Cfg{Kind: "loading", MaxSize: 100, Clients: 4, Keys: 1, Pool: variant%2 == 1 && r.Args["racepass"] == ""}
	defer r.Case(fmt.Sprintf("leader-window %d pool=%v", variant, cfg.Pool))()
	api, err := c01Build(cfg, nil)
	if err != nil {
		r.Broken("build: %v", err)
		return
	}
	defer api.close()
	pk := newParker(internal.VPSFCleanup)
	defer pk.close()
	var hist []hop
	var mu sync.Mutex
	rec := func(h hop) { mu.Lock(); hist = append(hist, h); mu.Unlock() }
	doGet := func(cl int) {
		t0 := tick()
		v, ok, loaded := api.get(7)
		t1 := tick()
		kind := opShared
		if !ok {
			kind = opGetMiss
		} else if loaded {
			kind = opLoad
		}
		rec(hop{Client: cl, Kind: kind, Key: 7, Val: v, Call: t0, Ret: t1})
	}
	pc, done := pk.goParked("leader", func() { doGet(0) })
	if _, isParked, werr := waitParkedOrDone(pc, done); werr != nil || !isParked {
		r.Inconclusive(1)
		r.Count("leader_window_not_reached", 1)
		return
	}
	doGet(1) // a hit on the freshly loaded value
	if variant/2%2 == 0 {
		t0 := tick()
		api.del(7)
		rec(hop{Client: 2, Kind: opDelete, Key: 7, Call: t0, Ret: tick()})
	} else {
		t0 := tick()
		v := int64(3)<<40 | 1
		api.set(7, v, 0)
		rec(hop{Client: 2, Kind: opSet, Key: 7, Val: v, Call: t0, Ret: tick()})
		t0 = tick()
		api.del(7)
		rec(hop{Client: 2, Kind: opDelete, Key: 7, Call: t0, Ret: tick()})
	}
	late := make(chan struct{})
	go func() { doGet(3); close(late) }()
	// give the late Get the chance to join the leader's flight, then let the leader finish
	for i := 0; i < 50; i++ {
		runtime.Gosched()
		time.Sleep(200 * time.Microsecond)
	}
	pc.release <- struct{}{}
	<-done
	select {
	case <-late:
	case <-time.After(30 * time.Second):
		r.Violate("get-blocked-after-leader-finished", "a Get invoked while a finished load was still registered never returned", map[string]any{"history": hopStrings(hist), "stacks": allStacks()})
		return
	}
	r.Eval(1)
	r.Count("leader_window_reached", 1)
	r.Distinct(fmt.Sprintf("leader-window/variant%d", variant%4))
	c01Check(r, cfg, hist, fmt.Sprintf("leader-window scenario %d (leader parked after storing, before unregistering its load)", variant))
}

func c01Replay(r *Run) {
	b, err := os.ReadFile(r.Replay)
	if err != nil {
		r.Broken("replay: %v", err)
		return
	}
	var w struct {
		Witness struct {
			Key     int   `json:"key"`
			History []hop `json:"key_history"`
		} `json:"witness"`
	}
	if err := json.Unmarshal(b, &w); err != nil {
		r.Broken("replay: %v", err)
		return
	}
	r.Rule("offline re-check of a recorded per-key history")
	n := c01Check(r, nil, w.Witness.History, "replay")
	r.Eval(1)
	r.Distinct("replay-a")
	r.Distinct("replay-b")
	fmt.Printf("replayed %d operations of key %d: illegal=%v\n", len(w.Witness.History), w.Witness.Key, n > 0)
}

// c01ManyKeys: the property's clauses on a key population far larger than the few keys of the recorded histories
// (thousands of keys, so that every shard holds dozens to hundreds and whatever is sized by the number of entries -
// maps, doorkeeper filters - grows, ages and is replaced on the way): each key is offered until it is stored, read
// back, overwritten, read back, deleted, and must then be absent from Get and Range until it is set again. One
// client, so "the most recent Set" is simply the last one. Configurations: plain / loading x doorkeeper x entry pool;
// MaxSize above the population, so nothing is evicted.
func c01ManyKeys(r *Run, idx int) {
	rng := r.Rng(int64(1700 + idx))
	kind := []string{"plain", "loading"}[idx%2]
	door, pool := idx/2%2 == 0, idx/4%2 == 1
	n := 2000 + rng.Intn(4000)
	a, err := newAnyCache(kind, anyOpts{MaxSize: int64(4 * n), Doorkeeper: door, Pool: pool,
		Loader: func(ctx context.Context, k int) (theine.Loaded[int64], error) {
			return theine.Loaded[int64]{Value: -int64(k) - 1, Cost: 1}, nil
		}})
	if err != nil {
		r.Broken("build: %v", err)
		return
	}
	defer a.closeAPI()
	done := r.Case(fmt.Sprintf("many-keys %d kind=%s doorkeeper=%v pool=%v keys=%d", idx, kind, door, pool, n))
	defer done()
	cfg := map[string]any{"round": idx, "cache": kind, "doorkeeper": door, "entry_pool": pool, "keys": n}
	fail := func(key, what string) {
		r.Violate(key+"/many-keys", fmt.Sprintf("many-keys round %d (%s, doorkeeper %v, entry pool %v, %d keys): %s", idx, kind, door, pool, n, what), cfg)
	}
	base := 10_000_000 + idx*100_000
	stored := map[int]int64{}
	for i := 0; i < n; i++ {
		k := base + i
		for try := 0; try < 3; try++ {
			if a.set(k, int64(k)*2, 1, 0) {
				stored[k] = int64(k) * 2
				break
			}
		}
	}
	a.wait()
	if len(stored) < n*9/10 {
		fail("set-refused", fmt.Sprintf("only %d of %d keys were stored within three offers each", len(stored), n))
		return
	}
	readBack := func(phase string) bool {
		for k, want := range stored {
			v, ok, _ := a.get(context.Background(), k)
			if kind == "loading" && ok && v == -int64(k)-1 {
				ok = false // the loader answered: the key was not in the cache
			}
			if !ok || v != want {
				fail("stale-or-missing-read/"+phase, fmt.Sprintf("key %d: Get returned (%d,%v), the most recent Set stored %d and nothing can have been evicted", k, v, ok, want))
				return false
			}
		}
		return true
	}
	if !readBack("after-set") {
		return
	}
	for k := range stored {
		if a.set(k, int64(k)*2+1, 1, 0) {
			stored[k] = int64(k)*2 + 1
		}
	}
	if !readBack("after-overwrite") {
		return
	}
	// delete three quarters; the rest stays
	deleted := map[int]bool{}
	for k := range stored {
		if k%4 != 0 {
			_ = a.del(k)
			deleted[k] = true
		}
	}
	a.wait()
	if kind == "plain" {
		for k := range deleted {
			if v, ok, _ := a.get(context.Background(), k); ok {
				fail("stale-read/get-after-delete", fmt.Sprintf("key %d: Delete has returned, yet Get returns %d (%d of %d keys deleted)", k, v, len(deleted), len(stored)))
				return
			}
		}
	}
	seenDeleted, seen := 0, 0
	first := 0
	a.rangeAll(func(k int, v int64) bool {
		seen++
		if deleted[k] {
			if seenDeleted == 0 {
				first = k
			}
			seenDeleted++
		}
		return true
	})
	if seenDeleted > 0 {
		fail("stale-read/range-visit-after-delete", fmt.Sprintf("Range visited %d keys whose Delete had returned (first: %d)", seenDeleted, first))
		return
	}
	if want := len(stored) - len(deleted); seen != want && kind == "plain" {
		fail("range-misses-resident-keys", fmt.Sprintf("Range visited %d keys, %d are stored and not deleted", seen, want))
		return
	}
	for k := range deleted {
		delete(stored, k)
	}
	if !readBack("after-deleting-other-keys") {
		return
	}
	r.Eval(1)
	r.Count("many_keys_rounds", 1)
	r.Count("many_keys_keys", int64(n))
	r.Distinct(fmt.Sprintf("many-keys/%s/door=%v/pool=%v", kind, door, pool))
}

// c01WideValues: "exactly the value of the most recent Set" for values wider than a machine word. Every value is
// four copies of one unique id; writers overwrite a handful of resident keys while readers Get and Range them. A
// value whose four words differ was never written by anybody - whatever order the operations took effect in.
// (Entry pool off; plain and loading caches, with and without doorkeeper.)
func c01WideValues(r *Run, idx int) {
	type wide [4]int64
	rng := r.Rng(int64(1900 + idx))
	loadingKind := idx%2 == 1
	b := theine.NewBuilder[int, wide](int64([]int{4, 64, 1000}[idx/2%3]))
	if idx/6%2 == 1 {
		b = b.Doorkeeper(true)
	}
	var get func(k int) (wide, bool)
	var set func(k int, v wide)
	var rangef func(f func(k int, v wide) bool)
	var closef func()
	var seq atomic.Int64
	if loadingKind {
		c, err := b.Loading(func(ctx context.Context, k int) (theine.Loaded[wide], error) {
			x := seq.Add(1)<<8 | 0xEE
			return theine.Loaded[wide]{Value: wide{x, x, x, x}, Cost: 1}, nil
		}).Build()
		if err != nil {
			r.Broken("build: %v", err)
			return
		}
		get = func(k int) (wide, bool) { v, err := c.Get(context.Background(), k); return v, err == nil }
		set = func(k int, v wide) { c.Set(k, v, 1) }
		rangef, closef = c.Range, c.Close
	} else {
		c, err := b.Build()
		if err != nil {
			r.Broken("build: %v", err)
			return
		}
		get, set, rangef, closef = c.Get, func(k int, v wide) { c.Set(k, v, 1) }, c.Range, c.Close
	}
	defer closef()
	keys := 2 + rng.Intn(6)
	for k := 0; k < keys; k++ {
		x := seq.Add(1) << 8
		set(k, wide{x, x, x, x})
		set(k, wide{x, x, x, x})
	}
	var torn atomic.Int64
	var first atomic.Value
	check := func(how string, k int, v wide) {
		if v[0] != v[1] || v[1] != v[2] || v[2] != v[3] {
			if torn.Add(1) == 1 {
				first.Store(fmt.Sprintf("%s of key %d returned %v", how, k, v))
			}
		}
	}
	var wg sync.WaitGroup
	var reads atomic.Int64
	stop := make(chan struct{})
	W, R := 2+rng.Intn(3), 2+rng.Intn(4)
	for w := 0; w < W; w++ {
		wg.Add(1)
		go func(w int) {
			defer wg.Done()
			rg := rand.New(rand.NewSource(int64(idx*100 + w)))
			for {
				select {
				case <-stop:
					return
				default:
				}
				x := seq.Add(1) << 8
				set(rg.Intn(keys), wide{x, x, x, x})
			}
		}(w)
	}
	for q := 0; q < R; q++ {
		wg.Add(1)
		go func(q int) {
			defer wg.Done()
			rg := rand.New(rand.NewSource(int64(idx*100 + 50 + q)))
			for i := 0; ; i++ {
				select {
				case <-stop:
					return
				default:
				}
				if q == 0 && i%64 == 0 {
					rangef(func(k int, v wide) bool { check("a Range visit", k, v); reads.Add(1); return true })
					continue
				}
				k := rg.Intn(keys)
				if v, ok := get(k); ok {
					check("Get", k, v)
					reads.Add(1)
				}
			}
		}(q)
	}
	for i := 0; i < 150 && torn.Load() == 0; i++ {
		time.Sleep(time.Millisecond)
	}
	close(stop)
	wg.Wait()
	r.Eval(1)
	r.Count("wide_value_rounds", 1)
	r.Count("wide_value_reads", reads.Load())
	r.Distinct(fmt.Sprintf("wide-values/loading=%v/%d", loadingKind, idx/2%6))
	if n := torn.Load(); n > 0 {
		r.Violate("value-nobody-wrote/torn-multi-word-value", fmt.Sprintf("wide-values round %d (loading %v, %d keys, %d writers, %d readers): %d reads returned a value whose four words differ, although every value written is four copies of one number; first: %s", idx, loadingKind, keys, W, R, n, first.Load()),
			map[string]any{"round": idx, "loading": loadingKind, "keys": keys, "writers": W, "readers": R})
	}
}

func runC01(r *Run) {
	if r.Replay != "" {
		c01Replay(r)
		return
	}
	r.Rule("case = one concurrent history (4-16 clients x 150-400 ops over 3-12 keys, unique values) recorded at the client boundary and checked per key with porcupine against a sequential map model (miss always legal and makes the key absent; leader loading-Get = write; Range visit = read). " +
		"Non-trivial = the history contains at least one pair of time-overlapping operations on one key of which one is a write/delete; distinct by hash of the (kind,key) call-order sequence")
	r.Assume("timestamps come from one process-wide atomic counter sampled immediately before the call and immediately after the return",
		"all costs are 1; tiny MaxSize values force eviction on almost every write",
		"a checker timeout (30 s per key history) is inconclusive, not a violation")
	type variant struct {
		kind             string
		doorkeeper, pool bool
	}
	variants := []variant{{"plain", false, false}, {"plain", true, false}, {"plain", false, true}, {"loading", false, false}, {"loading", true, false}, {"loading", false, true}}
	sizes := []int64{1, 2, 3, 8, 64, 1000}
	total := r.Pick(192, 6000)
	var delayMode atomic.Int32
	var hookHits atomic.Int64
	internal.VerifSetHook(func(id int) {
		if id != internal.VPBeforeEvent {
			return
		}
		switch delayMode.Load() {
		case 1:
			runtime.Gosched()
		case 2:
			spin(int(hookHits.Add(1) % 5))
		}
	})
	defer internal.VerifSetHook(nil)
	if r.Shard < 4 {
		for i := 0; i < 4; i++ {
			c01LeaderWindow(r, r.Shard+4*i)
		}
	}
	internal.VerifSetHook(func(id int) {
		if id != internal.VPBeforeEvent {
			return
		}
		switch delayMode.Load() {
		case 1:
			runtime.Gosched()
		case 2:
			spin(int(hookHits.Add(1) % 5))
		}
	})
	c01Storm(r, r.Shard)
	if r.Args["racepass"] == "" {
		for i := 0; i < r.Pick(2, 8); i++ {
			c01ManyKeys(r, r.Shard*8+i)
		}
		for i := 0; i < r.Pick(6, 48); i++ {
			c01WideValues(r, r.Shard*48+i)
		}
	}
	for n := 0; n < total; n++ {
		if n%r.NShards != r.Shard {
			continue
		}
		rng := r.Rng(int64(n))
		v := variants[n%len(variants)]
		cfg := c01Cfg{Kind: v.kind, Doorkeeper: v.doorkeeper, Pool: v.pool,
			MaxSize: sizes[rng.Intn(len(sizes))], Clients: 4 + rng.Intn(13), Ops: 150 + rng.Intn(251), Keys: 3 + rng.Intn(10),
			TTLs: rng.Intn(2) == 0, Delay: rng.Intn(3), Ranges: rng.Intn(3) > 0, SameShard: rng.Intn(2) == 0, SlowRange: rng.Intn(2) == 0}
		if r.Args["racepass"] != "" {
			// under the race detector the pool stays off: with it an entry is recycled while events for its previous
			// life are still queued (the README says so), and the detector reports exactly that - not this property's
			// business and outside the "no data races" claim, which is made for the pool disabled
			cfg.Pool = false
		}
		delayMode.Store(int32(cfg.Delay))
		caseDone := r.Case(fmt.Sprintf("history %d kind=%s maxsize=%d clients=%d doorkeeper=%v pool=%v", n, cfg.Kind, cfg.MaxSize, cfg.Clients, cfg.Doorkeeper, cfg.Pool))
		hist, err := c01History(cfg, rng.Int63())
		if err != nil {
			r.Broken("history: %v", err)
			return
		}
		r.Eval(1)
		r.Count("operations_recorded", int64(len(hist)))
		ov := 0
		for _, ops := range splitByKey(hist) {
			ov += overlapStats(ops)
		}
		r.Count("overlapping_write_pairs", int64(ov))
		kinds := map[opKind]int{}
		for _, o := range hist {
			kinds[o.Kind]++
		}
		for k, c := range kinds {
			r.Count("ops_"+opNames[k], int64(c))
		}
		if ov > 0 {
			sort.Slice(hist, func(i, j int) bool { return hist[i].Call < hist[j].Call })
			sig := make([]byte, 0, len(hist)*2)
			for _, o := range hist {
				sig = append(sig, byte(o.Kind), byte(o.Key))
			}
			r.DistinctHash(hashStr(string(sig)))
		}
		c01Check(r, cfg, hist, fmt.Sprintf("history %d (%s dk=%v pool=%v M=%d, %d clients)", n, cfg.Kind, cfg.Doorkeeper, cfg.Pool, cfg.MaxSize, cfg.Clients))
		caseDone()
		if n < 2*r.NShards {
			ex := hist
			if len(ex) > 12 {
				ex = ex[:12]
			}
			r.Sample(2, map[string]any{"config": cfg, "operations": len(hist), "overlapping_write_pairs": ov, "first_ops": hopStrings(ex)})
		}
	}
	r.Info("gomaxprocs", runtime.GOMAXPROCS(0))
}
