package main

import (
	"context"
	"encoding/json"
	"fmt"
	"math/rand"
	"sync"

	theine "github.com/Yiling-J/theine-go"
	"github.com/Yiling-J/theine-go/internal"
)

type internalEntry = internal.VerifEntry[int, int]

// C09 — admission quality: frequently read entries survive one-off insertions,
// and on skewed traces the cache is at least as good as LRU; also after the
// cache has been used concurrently.
//
// Events: hit/miss of every read of a generated trace (a hit is a value
// answered from the memory tier without running the loader or consulting the
// secondary store). The same trace is fed to a cost-aware reference LRU of
// the same capacity.
// Oracle: hot-set traces: hit ratio of the hot keys over the last quarter of
// the trace >= 0.97; Zipf traces: hit ratio >= LRU's - 0.005 (both thresholds
// lie well inside the margins measured on the repaired tree, see DESIGN.md).

func init() { registry["C09"] = runC09 }

const c09HotThreshold = 0.97
const c09LruSlack = 0.005

// ---- reference LRU (cost aware)

type lruNode struct {
	key, cost  int
	prev, next *lruNode
}

type refLRU struct {
	cap, used int
	m         map[int]*lruNode
	root      lruNode
}

func newRefLRU(capacity int) *refLRU {
	l := &refLRU{cap: capacity, m: map[int]*lruNode{}}
	l.root.prev, l.root.next = &l.root, &l.root
	return l
}

func (l *refLRU) unlink(n *lruNode) { n.prev.next, n.next.prev = n.next, n.prev }
func (l *refLRU) front(n *lruNode) {
	n.prev, n.next = &l.root, l.root.next
	n.prev.next, n.next.prev = n, n
}

// access returns true on a hit; on a miss the key is inserted with the given cost.
func (l *refLRU) access(k, cost int) bool {
	if n, ok := l.m[k]; ok {
		l.unlink(n)
		l.front(n)
		return true
	}
	l.insert(k, cost)
	return false
}

func (l *refLRU) insert(k, cost int) {
	if cost > l.cap {
		return
	}
	if n, ok := l.m[k]; ok {
		l.unlink(n)
		l.front(n)
		return
	}
	n := &lruNode{key: k, cost: cost}
	l.m[k] = n
	l.front(n)
	l.used += cost
	for l.used > l.cap {
		t := l.root.prev
		l.unlink(t)
		delete(l.m, t.key)
		l.used -= t.cost
	}
}

// ---- cache adapters

type c09Cache struct {
	kind   string
	c      *theine.Cache[int, int]
	lc     *theine.LoadingCache[int, int]
	hc     *theine.HybridCache[int, int]
	sec    *monSecondary[int, int]
	loaded bool // set by the loader (single-threaded measurement phase)
}

func c09Cost(mixed bool) func(int) int64 {
	if mixed {
		return func(v int) int64 { return int64(v&3) + 1 }
	}
	return func(v int) int64 { return 1 }
}

func newC09Cache(kind string, maxsize int, mixed bool) (*c09Cache, error) {
	cc := &c09Cache{kind: kind}
	b := theine.NewBuilder[int, int](int64(maxsize)).Cost(c09Cost(mixed))
	var err error
	switch kind {
	case "plain":
		cc.c, err = b.Build()
	case "loading":
		cc.lc, err = b.Loading(func(ctx context.Context, k int) (theine.Loaded[int], error) {
			if tok, ok := ctx.Value(tokKeyT{}).(*loadTok); ok {
				tok.loaded = true
			}
			return theine.Loaded[int]{Value: k}, nil
		}).Build()
	case "hybrid":
		cc.sec = newMonSecondary[int, int](false)
		cc.hc, err = b.Hybrid(cc.sec).Workers(2).Build()
	}
	return cc, err
}

// read returns whether key k was answered from memory; on a miss the key is
// (re)inserted the way a cache-aside client does.
func (cc *c09Cache) read(k int) bool {
	switch cc.kind {
	case "plain":
		if _, ok := cc.c.Get(k); ok {
			return true
		}
		cc.c.Set(k, k, 0)
		return false
	case "loading":
		tok := &loadTok{}
		_, _ = cc.lc.Get(context.WithValue(context.Background(), tokKeyT{}, tok), k)
		return !tok.loaded
	default:
		g0 := cc.sec.gets.Load()
		_, ok, _ := cc.hc.Get(k)
		if ok && cc.sec.gets.Load() == g0 {
			return true
		}
		if !ok {
			cc.hc.Set(k, k, 0)
		}
		return false
	}
}

func (cc *c09Cache) insert(k int) {
	switch cc.kind {
	case "plain":
		cc.c.Set(k, k, 0)
	case "loading":
		_, _ = cc.lc.Get(context.Background(), k)
	default:
		cc.hc.Set(k, k, 0)
	}
}

func (cc *c09Cache) close() {
	switch cc.kind {
	case "plain":
		cc.c.Close()
	case "loading":
		cc.lc.Close()
	default:
		cc.hc.VerifStore().Close()
	}
}

// split returns (protected capacity, window capacity) of the adaptive policy.
func (cc *c09Cache) split() (int, int) {
	var pc, wc uint
	switch cc.kind {
	case "plain":
		pc, wc = cc.c.VerifStore().VerifSplit()
	case "loading":
		pc, wc = cc.lc.VerifStore().VerifSplit()
	default:
		pc, wc = cc.hc.VerifStore().VerifSplit()
	}
	return int(pc), int(wc)
}

func (cc *c09Cache) wait() {
	switch cc.kind {
	case "plain":
		cc.c.Wait()
	case "loading":
		cc.lc.Wait()
	default:
		cc.hc.VerifStore().Wait()
	}
}

// preuse: the same workload as the measured trace (same hot set and insert
// mix, or the same Zipf distribution), executed by 32 goroutines at once, plus
// a few Deletes of one-off keys. Only the *manner* of use differs between the
// fresh and the pre-used arm of a configuration - concurrently exercised
// buffers, queue, sketch and lists - not the key population: a pre-use phase
// on an unrelated population measures adaptation to a workload shift, which
// the property does not claim (see DESIGN.md, C09, corrected false alarm).
// The keys touched are returned round-robin merged (negative = deleted) so the
// reference LRU is warmed with the same stream.
var c09PreuseG = 32

func (cc *c09Cache) preuse(rng *rand.Rand, cfg c09Cfg, hot []int) (int, []int) {
	G := c09PreuseG
	ops := cfg.Requests / 4 / G
	if ops > 60000*32/G {
		ops = 60000 * 32 / G
	}
	streams := make([][]int, G)
	var wg sync.WaitGroup
	for g := 0; g < G; g++ {
		wr := rand.New(rand.NewSource(rng.Int63()))
		wg.Add(1)
		go func(g int) {
			defer wg.Done()
			mine := make([]int, 0, ops)
			var z *rand.Zipf
			if cfg.Workload == "zipf" {
				z = rand.NewZipf(wr, cfg.ZipfS, 1, uint64(cfg.MaxSize*20))
			}
			fresh := 1<<29 + g<<22
			for i := 0; i < ops; i++ {
				switch {
				case z != nil:
					k := int(z.Uint64())
					mine = append(mine, k)
					cc.read(k)
				case wr.Intn(cfg.Reads+cfg.Inserts) < cfg.Reads:
					k := hot[wr.Intn(len(hot))]
					mine = append(mine, k)
					cc.read(k)
				case wr.Intn(20) == 0 && fresh > 1<<29+g<<22:
					k := fresh - wr.Intn(imax(1, (fresh-(1<<29+g<<22))%64))
					mine = append(mine, -k)
					switch cc.kind {
					case "plain":
						cc.c.Delete(k)
					case "loading":
						cc.lc.Delete(k)
					default:
						_ = cc.hc.Delete(k)
					}
				default:
					fresh++
					mine = append(mine, fresh)
					cc.insert(fresh)
				}
			}
			streams[g] = mine
		}(g)
	}
	wg.Wait()
	cc.wait()
	merged := make([]int, 0, G*ops)
	for i := 0; i < ops; i++ {
		for g := 0; g < G; g++ {
			merged = append(merged, streams[g][i])
		}
	}
	return G * ops, merged
}

func (l *refLRU) remove(k int) {
	if n, ok := l.m[k]; ok {
		l.unlink(n)
		delete(l.m, k)
		l.used -= n.cost
	}
}

// ---- traces

type c09Cfg struct {
	Workload string  `json:"workload"` // "hot" | "zipf"
	Kind     string  `json:"cache"`
	MaxSize  int     `json:"maxsize"`
	HotFrac  float64 `json:"hot_fraction,omitempty"`
	Reads    int     `json:"reads_per_mix,omitempty"`
	Inserts  int     `json:"inserts_per_mix,omitempty"`
	ZipfS    float64 `json:"zipf_s,omitempty"`
	Mixed    bool    `json:"mixed_costs"`
	PreUsed  bool    `json:"pre_used_concurrently"`
	AfterRec bool    `json:"after_recency_friendly_phase,omitempty"`
	AfterOld bool    `json:"after_an_earlier_working_set,omitempty"`
	Requests int     `json:"requests"`
}

func c09Trace(r *Run, idx int, cfg c09Cfg) {
	rng := r.Rng(int64(9000 + idx))
	cc, err := newC09Cache(cfg.Kind, cfg.MaxSize, cfg.Mixed)
	if err != nil {
		r.Broken("build: %v", err)
		return
	}
	defer cc.close()
	pre := 0
	cost := c09Cost(cfg.Mixed)
	lru := newRefLRU(cfg.MaxSize)
	// hot set: keys 0..H-1 whose costs sum to <= HotFrac*MaxSize
	var hot []int
	sum := 0
	if cfg.Workload == "hot" {
		for k := 0; ; k++ {
			c := int(cost(k))
			if float64(sum+c) > cfg.HotFrac*float64(cfg.MaxSize) {
				break
			}
			sum += c
			hot = append(hot, k)
		}
		if len(hot) == 0 {
			hot, sum = []int{0}, 1
		}
	}
	if cfg.PreUsed {
		var keys []int
		pre, keys = cc.preuse(rng, cfg, hot)
		for _, k := range keys {
			if k < 0 {
				lru.remove(-k)
			} else {
				lru.access(k, int(cost(k)))
			}
		}
	}
	res := map[string]any{"config": cfg, "preuse_ops": pre}
	state := "fresh"
	if cfg.PreUsed {
		state = "pre-used"
	}
	if cfg.AfterRec {
		// a recency-friendly history first: every key is read again shortly after it was written and then
		// never again, over a population of 3 x MaxSize - the hill climber answers by growing the window.
		// The measured hot-set workload follows; the property promises that its hit ratio converges.
		state = "after-recency-phase"
		// every new key is read again exactly once, a random short while (up to 0.7 x MaxSize steps)
		// after it was inserted, for 2500 x MaxSize steps: long enough for the window to reach its
		// maximum and for the climber's step to decay to almost nothing (0.98 per sample of 10 x MaxSize
		// events), so that only a restart of the climber can bring the window back afterwards
		maxd := cfg.MaxSize * 7 / 10
		ring := make([][]int, maxd+1)
		next := 1 << 28
		for i := 0; i < 2500*cfg.MaxSize; i++ {
			slot := i % (maxd + 1)
			for _, k := range ring[slot] {
				cc.read(k)
				lru.access(k, int(cost(k)))
			}
			ring[slot] = ring[slot][:0]
			next++
			cc.insert(next)
			lru.insert(next, int(cost(next)))
			ds := (i + 1 + rng.Intn(maxd)) % (maxd + 1)
			ring[ds] = append(ring[ds], next)
			// reads reach the policy through lossy buffers; on a loaded machine most of them are dropped while the
			// maintenance goroutine starves and the history this arm is about never forms - pace the phase
			if i%64 == 0 {
				cc.wait()
			}
		}
		cc.wait()
		pc, wc := cc.split()
		res["window_capacity_after_recency_phase"], res["protected_capacity_after_recency_phase"] = wc, pc
		r.Count("recency_phases_run", 1)
		if int(wc)*10 >= cfg.MaxSize*6 {
			r.Count("recency_phases_that_took_the_window_past_60_percent", 1)
		}
	}
	if cfg.AfterOld {
		// an earlier working set first: as many keys as the cache holds, read uniformly 30 x MaxSize times (a miss
		// stores the key) by one goroutine or by eight at once, never touched again afterwards. The hot set then has
		// to take the place of residents that were popular once.
		state = "after-earlier-working-set"
		oldBase := 1 << 26
		phase := func(seed int64, n int) {
			pr := rand.New(rand.NewSource(seed))
			for i := 0; i < n; i++ {
				k := oldBase + pr.Intn(cfg.MaxSize)
				if !cc.read(k) {
					cc.insert(k)
				}
				if i%32 == 0 {
					cc.wait()
				}
			}
		}
		if idx%2 == 0 {
			phase(rng.Int63(), 30*cfg.MaxSize)
		} else {
			var wg sync.WaitGroup
			for g := 0; g < 8; g++ {
				wg.Add(1)
				go func(seed int64) { defer wg.Done(); phase(seed, 8*cfg.MaxSize) }(rng.Int63())
			}
			wg.Wait()
			state += "/concurrent"
		}
		cc.wait()
		// the reference LRU is only reported for hot-set traces, never judged: it is not fed this phase
		r.Count("earlier_working_set_phases_run", 1)
	}
	switch cfg.Workload {
	case "hot":
		fresh := 1 << 24
		var hotReads, hotHits, lruHits int
		tailFrom := cfg.Requests * 3 / 4
		// white-box: the adaptive split at 16 points of the measured quarter (evidence for the cause key only)
		minProtCap, maxWinCap := int(^uint(0)>>1), 0
		sampleEvery := (cfg.Requests - tailFrom) / 16
		for i := 0; i < cfg.Requests; i++ {
			if i >= tailFrom && (i-tailFrom)%sampleEvery == 0 {
				pc, wc := cc.split()
				if pc < minProtCap {
					minProtCap = pc
				}
				if wc > maxWinCap {
					maxWinCap = wc
				}
			}
			// (Pacing this phase with Wait, as the recency phase is, was tried and dropped: it does make the history
			// independent of how starved the maintenance goroutine is, but it is a different history - the same small
			// hybrid trace measured 0.61 / 0.62 / 0.87 paced against 0.83 / 0.88 / 0.92 unpaced - and every bound below
			// was established on unpaced traces.)
			if rng.Intn(cfg.Reads+cfg.Inserts) < cfg.Reads {
				k := hot[rng.Intn(len(hot))]
				h := cc.read(k)
				lh := lru.access(k, int(cost(k)))
				if i >= tailFrom {
					hotReads++
					if h {
						hotHits++
					}
					if lh {
						lruHits++
					}
				}
			} else {
				fresh++
				cc.insert(fresh)
				lru.insert(fresh, int(cost(fresh)))
			}
		}
		hr := float64(hotHits) / float64(imax(hotReads, 1))
		res["hot_keys"], res["hot_cost"], res["hot_reads_in_last_quarter"], res["hit_ratio_last_quarter"] = len(hot), sum, hotReads, hr
		res["lru_hit_ratio_last_quarter"] = float64(lruHits) / float64(imax(hotReads, 1))
		res["min_protected_capacity_in_last_quarter"], res["max_window_capacity_in_last_quarter"] = minProtCap, maxWinCap
		r.Count("hot_reads_measured", int64(hotReads))
		r.CountMax("max_hot_miss_permille", int64((1-hr)*1000))
		if hotReads < 1000 {
			r.Inconclusive(1)
		} else if hr < c09HotThreshold {
			key := fmt.Sprintf("hot-set-lost/%s/%s", cfg.Kind, state)
			if cfg.AfterRec && minProtCap < sum && cfg.MaxSize <= 2048 && hr >= 0.60 {
				// second open finding, same mechanism after a different history: following a long
				// recency-friendly phase (window at 70-80% of the cache, climber step decayed) the climber
				// restarts but, at 3 inserts per read, is still swinging through "protected smaller than the
				// hot set" during the measured quarter: observed 0.918..0.958 in 4 of 24 traces at MaxSize
				// 1024 / 2048 (1:1 mix: never below 0.993). Outside those bounds it is a new violation.
				key = "hot-set-lost/after-recency-phase/adaptive-window-squeezed-protected-below-hot-set/maxsize<=2048/hit-ratio>=0.60"
			} else if !cfg.AfterRec && minProtCap < sum && cfg.MaxSize <= 1024 && hr >= 0.60 {
				// the open finding, identified by what was observed on the unchanged tree over 1620 hot-set
				// traces: the hill climber grows the window until the protected region is smaller than the
				// hot set; seen at MaxSize 50..1000 and once at 1024 (never at >= 4096: 0 of 864 traces, also with
				// the machine loaded to 40), hit ratio never below 0.818.
				// Anything outside those observed bounds, or without the squeeze, is a new violation.
				key = "hot-set-lost/adaptive-window-squeezed-protected-below-hot-set/maxsize<=1024/hit-ratio>=0.60"
			}
			r.Violate(key,
				fmt.Sprintf("hot set of %d keys (cost %d of MaxSize %d, %s cache, %s) read %d:%d against one-off inserts: hit ratio over the last quarter of %d requests is %.4f < %.2f (protected capacity fell to %d, window capacity rose to %d during that quarter)", len(hot), sum, cfg.MaxSize, cfg.Kind, state, cfg.Reads, cfg.Inserts, cfg.Requests, hr, c09HotThreshold, minProtCap, maxWinCap), res)
		}
	case "zipf":
		z := rand.NewZipf(rng, cfg.ZipfS, 1, uint64(cfg.MaxSize*20))
		var hits, lhits int
		for i := 0; i < cfg.Requests; i++ {
			k := int(z.Uint64())
			if cc.read(k) {
				hits++
			}
			if lru.access(k, int(cost(k))) {
				lhits++
			}
		}
		hr, lhr := float64(hits)/float64(cfg.Requests), float64(lhits)/float64(cfg.Requests)
		res["hit_ratio"], res["lru_hit_ratio"] = hr, lhr
		r.Count("zipf_requests_measured", int64(cfg.Requests))
		d := int64((hr - lhr) * 10000)
		r.mu.Lock()
		if v, ok := r.res.Counters["min_margin_over_lru_x1e4"]; !ok || d < v {
			r.res.Counters["min_margin_over_lru_x1e4"] = d
		}
		r.mu.Unlock()
		if hr < lhr-c09LruSlack {
			r.Violate(fmt.Sprintf("below-lru/%s/%s", cfg.Kind, state),
				fmt.Sprintf("Zipf(s=%.2f) trace of %d requests, MaxSize %d, %s cache, %s: hit ratio %.4f is below the reference LRU's %.4f", cfg.ZipfS, cfg.Requests, cfg.MaxSize, cfg.Kind, state, hr, lhr), res)
		}
	}
	if r.Args["dump"] != "" {
		b, _ := json.Marshal(res)
		fmt.Printf("C09TRACE %s\n", b)
	}
	r.Eval(1)
	r.Distinct(fmt.Sprintf("%s/%s/M%d/f%.2f/%d:%d/s%.2f/mixed=%v/pre=%v/rec=%v", cfg.Workload, cfg.Kind, cfg.MaxSize, cfg.HotFrac, cfg.Reads, cfg.Inserts, cfg.ZipfS, cfg.Mixed, cfg.PreUsed, cfg.AfterRec))
	r.Sample(8, res)
}

func c09Configs(r *Run) []c09Cfg {
	// powers of two on purpose: table sizes of the frequency sketch and several masks are powers of two
	sizes := []int{50, 64, 200, 1000, 1024, 4096, 10000}
	if r.Thorough() {
		sizes = append(sizes, 100000)
	}
	kinds := []string{"plain", "loading", "hybrid"}
	var all []c09Cfg
	for _, m := range sizes {
		req := 200000
		if 60*m > req {
			req = 60 * m
		}
		for _, k := range kinds {
			for _, pre := range []bool{false, true} {
				for _, f := range []float64{0.1, 0.25, 0.5} {
					for _, mix := range [][2]int{{1, 1}, {1, 4}, {4, 1}} {
						for _, mixed := range []bool{false, true} {
							all = append(all, c09Cfg{Workload: "hot", Kind: k, MaxSize: m, HotFrac: f, Reads: mix[0], Inserts: mix[1], Mixed: mixed, PreUsed: pre, Requests: req})
						}
					}
				}
				for _, s := range []float64{1.01, 1.1, 1.3} {
					for _, mixed := range []bool{false, true} {
						all = append(all, c09Cfg{Workload: "zipf", Kind: k, MaxSize: m, ZipfS: s, Mixed: mixed, PreUsed: pre, Requests: req})
					}
				}
			}
			// hot set after a long recency-friendly history (sizes above the open finding's range; at most
			// 3 inserts per read, where the unchanged climber is known to come back; a longer measured phase)
			// hot set after an earlier, once popular working set of the cache's size (sizes above the open
			// findings' range, one insert per read, measured over 120 x MaxSize requests)
			if m == 4096 || m == 10000 {
				all = append(all, c09Cfg{Workload: "hot", Kind: k, MaxSize: m, HotFrac: 0.5, Reads: 1, Inserts: 1, AfterOld: true, Requests: 120 * m})
			}
			if m == 1024 || m == 4096 {
				mm := m
				if m == 4096 {
					mm = 2048
				}
				for _, mix := range [][2]int{{1, 1}, {1, 3}} {
					all = append(all, c09Cfg{Workload: "hot", Kind: k, MaxSize: mm, HotFrac: 0.5, Reads: mix[0], Inserts: mix[1], AfterRec: true, Requests: 600 * mm})
				}
			}
		}
	}
	return all
}

func runC09(r *Run) {
	if r.Args["diag"] != "" {
		c09Diag(r)
		return
	}
	if r.Args["control"] != "" {
		// control experiment: one pre-used Zipf trace, pre-use run by g goroutines
		c09PreuseG = mustAtoi(r.Args["g"], 32)
		r.Args["dump"] = "1"
		c09Trace(r, 0, c09Cfg{Workload: "zipf", Kind: "plain", MaxSize: mustAtoi(r.Args["m"], 10000), ZipfS: 1.1, PreUsed: r.Args["pre"] != "0", Requests: 600000})
		return
	}
	r.Rule("case = one generated trace on one cache: hot-set (hot keys costing <= f*MaxSize read r:i against never-read-again inserts; hit ratio of hot reads over the last quarter) or Zipf (hit ratio vs a cost-aware reference LRU of the same capacity fed the same trace); optionally preceded by a 32-goroutine read/write phase. Non-trivial = every trace; distinct by (workload, cache kind, MaxSize, hot fraction, mix, skew, costs, pre-used)")
	r.Assume("a hit = answered from the memory tier without running the loader / consulting the secondary store",
		"thresholds 0.97 (hot set) and LRU-0.005 (Zipf) are set inside the margins measured on the repaired tree; the traces are PRNG-determined per seed")
	all := c09Configs(r)
	if r.Args["onlyold"] != "" { // calibration aid: only the after-earlier-working-set arm
		var f []c09Cfg
		for _, c := range all {
			if c.AfterOld {
				f = append(f, c)
			}
		}
		all = f
	}
	if r.Args["onlyrec"] != "" { // calibration aid: only the after-recency arm
		var f []c09Cfg
		for _, c := range all {
			if c.AfterRec {
				f = append(f, c)
			}
		}
		all = f
	}
	if m := mustAtoi(r.Args["onlysize"], 0); m > 0 { // calibration aid: only the hot-set traces of one MaxSize
		var f []c09Cfg
		for _, c := range all {
			if c.Workload == "hot" && c.MaxSize == m && !c.AfterRec && !c.AfterOld {
				f = append(f, c)
			}
		}
		all = f
	}
	rng := r.Rng(2)
	var mine []c09Cfg
	if r.Thorough() {
		for i, c := range all {
			if i%r.NShards == r.Shard {
				mine = append(mine, c)
			}
		}
	} else {
		// quick: a PRNG-chosen stratified subset: per shard 4 hot + 2 zipf traces, half of them pre-used, sizes <= 10000
		perm := rng.Perm(len(all))
		hotN, zipfN, pow2N, recN, oldN := 0, 0, 0, 0, 0
		isPow2 := func(m int) bool { return m&(m-1) == 0 }
		for _, p := range perm {
			c := all[p]
			if p%r.NShards != r.Shard {
				continue
			}
			switch {
			case c.AfterOld:
				if oldN < 1 && (r.Args["onlyold"] != "" || p%2 == 0) {
					oldN++
					mine = append(mine, c)
				}
			case c.AfterRec:
				if recN < 1 {
					recN++
					mine = append(mine, c)
				}
			case c.Workload == "hot" && isPow2(c.MaxSize) && c.MaxSize >= 1024 && pow2N < 1:
				pow2N++
				mine = append(mine, c)
			case c.Workload == "hot" && hotN < 4:
				hotN++
				mine = append(mine, c)
			case c.Workload == "zipf" && zipfN < 2:
				zipfN++
				mine = append(mine, c)
			}
		}
	}
	parMap(len(mine), 2, func(i int) { c09Trace(r, i, mine[i]) })
}

// c09Diag runs one hot-set trace on a plain cache and prints, per period, the
// adaptive split and where the hot keys live (diagnosis aid, not a check).
func c09Diag(r *Run) {
	m := mustAtoi(r.Args["m"], 50)
	ins := mustAtoi(r.Args["ins"], 4)
	req := mustAtoi(r.Args["req"], 200000)
	period := mustAtoi(r.Args["period"], 5000)
	rng := r.Rng(int64(mustAtoi(r.Args["stream"], 9000)))
	cc, _ := newC09Cache("plain", m, false)
	defer cc.close()
	hot := m / 2
	fresh := 1 << 24
	hits, reads := 0, 0
	for i := 0; i < req; i++ {
		if rng.Intn(1+ins) < 1 {
			reads++
			if cc.read(rng.Intn(hot)) {
				hits++
			}
		} else {
			fresh++
			cc.insert(fresh)
		}
		if (i+1)%period == 0 {
			cc.wait()
			sn := cc.c.VerifStore().VerifSnapshot()
			in := func(l []internalEntry) int {
				n := 0
				for _, e := range l {
					if e.Key < hot {
						n++
					}
				}
				return n
			}
			fmt.Printf("req=%7d hr=%.3f wcap=%3d pcap=%3d | hot in window=%2d probation=%2d protected=%2d | sizes w=%d pb=%d pt=%d\n", i+1, float64(hits)/float64(imax(reads, 1)),
				sn.Window.Capacity, sn.Protected.Capacity, in(sn.Window.Entries), in(sn.Probation.Entries), in(sn.Protected.Entries), sn.Window.Len, sn.Probation.Len, sn.Protected.Len)
			hits, reads = 0, 0
		}
	}
}
