package main

import (
	"regexp"
	"strconv"
	"strings"
	"sync/atomic"
	"time"
)

// Hang detection without deadlines (C10, C13, C20).
//
// "The call never returns" is decided from an observed deadlock state, not
// from a timeout: the suspect goroutine is parked in a channel operation
// inside the cache, and the goroutine dump plus white-box state show that no
// goroutine exists that could ever complete that operation. The predicate is
// evaluated twice, some time apart, and must name the same goroutines in the
// same states both times (so a goroutine that is merely between two steps is
// never reported).

type gInfo struct {
	ID    int64
	State string // "chan receive", "chan send", "select", "semacquire", "running", "runnable", …
	Text  string
}

// header forms: "goroutine 7 [chan receive]:", "goroutine 7 [select, 2 minutes]:" and, with a
// raised traceback level, "goroutine 7 gp=0xc000007dc0 m=nil [chan receive]:"
var gHeader = regexp.MustCompile(`^goroutine (\d+)(?: [^\[\n]*)? \[([^\],]+)`)

func parseGoroutines(dump string) []gInfo {
	var out []gInfo
	for _, blk := range strings.Split(dump, "\n\n") {
		blk = strings.TrimSpace(blk)
		m := gHeader.FindStringSubmatch(blk)
		if m == nil {
			continue
		}
		id, _ := strconv.ParseInt(m[1], 10, 64)
		out = append(out, gInfo{ID: id, State: m[2], Text: blk})
	}
	return out
}

func (g gInfo) has(frame string) bool { return strings.Contains(g.Text, frame) }

const theineFrame = "github.com/Yiling-J/theine-go/internal."

// topTheineFrame returns the innermost theine function of the goroutine
// (e.g. "(*Store[...]).Wait"), or "".
func (g gInfo) topTheineFrame() string {
	for _, ln := range strings.Split(g.Text, "\n") {
		if i := strings.Index(ln, theineFrame); i >= 0 && !strings.HasPrefix(ln, "\t") {
			f := ln[i+len(theineFrame):]
			if j := strings.LastIndex(f, "("); j > 0 {
				f = f[:j]
			}
			if strings.HasPrefix(f, "Verif") || strings.Contains(f, ").Verif") || strings.Contains(f, "verifPoint") {
				continue
			}
			return f
		}
	}
	return ""
}

// stableDump takes two goroutine dumps `gap` apart and returns the goroutines
// that are present in both with the same state and the same innermost theine
// frame (i.e. parked at the same place), keyed by goroutine id.
// dumpBlind is set when a dump could not be parsed (the calling goroutine was
// not found in it): every verdict based on dumps is then void and the monitor
// must report itself broken instead of waiting for a state it cannot see.
var dumpBlind atomic.Bool

func stableDump(gap time.Duration) map[int64]gInfo {
	a := parseGoroutines(allStacks())
	self := goid()
	seen := false
	for _, g := range a {
		if g.ID == self {
			seen = true
		}
	}
	if !seen {
		dumpBlind.Store(true)
	}
	time.Sleep(gap)
	b := parseGoroutines(allStacks())
	first := map[int64]gInfo{}
	for _, g := range a {
		first[g.ID] = g
	}
	out := map[int64]gInfo{}
	for _, g := range b {
		if p, ok := first[g.ID]; ok && p.State == g.State && p.topTheineFrame() == g.topTheineFrame() {
			out[g.ID] = g
		}
	}
	return out
}

// dumpPair takes two dumps `gap` apart and returns (stable, all): `stable` as stableDump, `all` =
// every goroutine of the second dump. A deadlock argument must be made over `all`: a goroutine that
// is runnable, new, or changed between the dumps is able to make progress (and perhaps to release
// what the parked ones wait for), so only when every relevant goroutine of `all` is also in `stable`
// and parked may the parked ones be called stuck.
func dumpPair(gap time.Duration) (stable map[int64]gInfo, all map[int64]gInfo) {
	a := parseGoroutines(allStacks())
	self := goid()
	seen := false
	first := map[int64]gInfo{}
	for _, g := range a {
		first[g.ID] = g
		if g.ID == self {
			seen = true
		}
	}
	if !seen {
		dumpBlind.Store(true)
	}
	time.Sleep(gap)
	stable, all = map[int64]gInfo{}, map[int64]gInfo{}
	for _, g := range parseGoroutines(allStacks()) {
		all[g.ID] = g
		if p, ok := first[g.ID]; ok && p.State == g.State && p.topTheineFrame() == g.topTheineFrame() {
			stable[g.ID] = g
		}
	}
	return
}

func parkedState(s string) bool {
	return s == "chan receive" || s == "chan send" || s == "select" || strings.HasPrefix(s, "sync.") || s == "semacquire"
}

// maintenanceState classifies the cache's maintenance goroutine(s) found in a
// dump: "absent", "idle" (parked in its select, nothing in hand), or "busy".
// With several stores alive in the process the caller must make sure only the
// store under test is open (others closed) — the monitors using this run one
// scenario at a time.
func maintenanceState(gs map[int64]gInfo) string {
	found := false
	for _, g := range gs {
		if !g.has(").maintenance(") && !g.has(").maintenance.") {
			continue
		}
		if g.has(".maintenance.func1") && !g.has(").drainWrite") { // the ticker goroutine
			continue
		}
		found = true
		if g.State != "select" || g.has(").drainWrite") || g.has(").sinkWrite") {
			return "busy"
		}
	}
	if !found {
		return "absent"
	}
	return "idle"
}

// maintenanceStatePair is maintenanceState decided soundly from a dump pair: a maintenance
// goroutine that exists in the second dump but is not identical in both dumps is busy.
func maintenanceStatePair(stable, all map[int64]gInfo) string {
	found := false
	for id, g := range all {
		if !g.has(").maintenance(") || (g.has(".maintenance.func1") && !g.has(").drainWrite")) {
			continue
		}
		found = true
		if _, same := stable[id]; !same {
			return "busy"
		}
		if g.State != "select" || g.has(").drainWrite") || g.has(").sinkWrite") {
			return "busy"
		}
	}
	if !found {
		return "absent"
	}
	return "idle"
}
