package main

import (
	"bytes"
	"context"
	"fmt"
	"math"
	"math/rand"
	"sync"
	"sync/atomic"
	"time"

	theine "github.com/Yiling-J/theine-go"
	"github.com/Yiling-J/theine-go/internal"
)

// C03 — no entry is served at or after its expiry deadline.
//
// Deadline oracle in the cache's own (virtual) time: every TTL write records
// (unique value, ttl, virtual time at return); a read that yields value v and
// was INVOKED at t >= t_return(write of v) + ttl is a violation. Virtual time
// is produced by shifting the clock origin while no client call is in flight;
// maintenance is stalled in three ways so the cached clock goes stale.

func init() { registry["C03"] = runC03 }

type c03Write struct {
	val  int64
	ttl  time.Duration
	tRet int64
	dHi  int64
}

type c03Env struct {
	kind   string // plain | loading
	c      *theine.Cache[int, int64]
	lc     *theine.LoadingCache[int, int64]
	st     *internal.Store[int, int64]
	nl     *noteLog[int, int64]
	writes map[int64]*c03Write
	seq    int64
	mu     sync.Mutex
}

func satAdd(a, b int64) int64 {
	if b > 0 && a > math.MaxInt64-b {
		return math.MaxInt64
	}
	return a + b
}

func newC03Env(kind string) *c03Env {
	e := &c03Env{kind: kind, nl: &noteLog[int, int64]{}, writes: map[int64]*c03Write{}}
	if kind == "plain" {
		c, err := theine.NewBuilder[int, int64](1000).RemovalListener(e.nl.listener()).Build()
		if err != nil {
			panic(err)
		}
		e.c, e.st = c, c.VerifStore()
	} else {
		lc, err := theine.NewBuilder[int, int64](1000).RemovalListener(e.nl.listener()).Loading(func(ctx context.Context, k int) (theine.Loaded[int64], error) {
			// loader TTL = what the case asked for through the context
			ttl, _ := ctx.Value(tokKeyT{}).(time.Duration)
			e.mu.Lock()
			e.seq++
			v := int64(2)<<56 | e.seq
			e.mu.Unlock()
			return theine.Loaded[int64]{Value: v, Cost: 1, TTL: ttl}, nil
		}).Build()
		if err != nil {
			panic(err)
		}
		e.lc, e.st = lc, lc.VerifStore()
	}
	return e
}

func (e *c03Env) close() {
	if e.c != nil {
		e.c.Close()
	} else {
		e.lc.Close()
	}
}

func (e *c03Env) setTTL(k int, ttl time.Duration) *c03Write {
	e.mu.Lock()
	e.seq++
	v := int64(1)<<56 | e.seq
	e.mu.Unlock()
	if e.c != nil {
		e.c.SetWithTTL(k, v, 1, ttl)
	} else {
		e.lc.SetWithTTL(k, v, 1, ttl)
	}
	t := e.st.VerifNowNano()
	w := &c03Write{val: v, ttl: ttl, tRet: t, dHi: satAdd(t, int64(ttl))}
	e.mu.Lock()
	e.writes[v] = w
	e.mu.Unlock()
	return w
}

// loadTTL performs a loading Get on an absent key whose loader returns ttl.
func (e *c03Env) loadTTL(k int, ttl time.Duration) *c03Write {
	v, err := e.lc.Get(context.WithValue(context.Background(), tokKeyT{}, ttl), k)
	t := e.st.VerifNowNano()
	if err != nil {
		return nil
	}
	w := &c03Write{val: v, ttl: ttl, tRet: t, dHi: satAdd(t, int64(ttl))}
	e.mu.Lock()
	if _, dup := e.writes[v]; !dup {
		e.writes[v] = w
	}
	e.mu.Unlock()
	return w
}

type c03Read struct {
	path   string
	tInv   int64
	cached int64
	val    int64
}

// read performs one read through `path` and returns the values it yielded
// together with the instant the (sub-)read was invoked.
func (e *c03Env) read(path string, k int) []c03Read {
	cached := e.st.VerifNowCached()
	tInv := e.st.VerifNowNano()
	switch path {
	case "get":
		var v int64
		var ok bool
		if e.c != nil {
			v, ok = e.c.Get(k)
		} else {
			// a plain hit path of the loading cache; on a miss the loader would run, which is a write: use Range to avoid it
			return e.read("range", k)
		}
		if ok {
			return []c03Read{{path, tInv, cached, v}}
		}
	case "loading-get":
		// loader TTL 1h: a miss loads a fresh value with its own deadline (recorded), a hit is a read
		v, err := e.lc.Get(context.WithValue(context.Background(), tokKeyT{}, time.Hour), k)
		t := e.st.VerifNowNano()
		if err == nil {
			e.mu.Lock()
			if _, known := e.writes[v]; !known {
				e.writes[v] = &c03Write{val: v, ttl: time.Hour, tRet: t, dHi: satAdd(t, int64(time.Hour))}
			}
			e.mu.Unlock()
			return []c03Read{{path, tInv, cached, v}}
		}
	case "range":
		var out []c03Read
		prev := tInv
		f := func(rk int, rv int64) bool {
			out = append(out, c03Read{path, prev, cached, rv})
			prev = e.st.VerifNowNano()
			return true
		}
		if e.c != nil {
			e.c.Range(f)
		} else {
			e.lc.Range(f)
		}
		return out
	}
	return nil
}

type c03Case struct {
	Kind     string `json:"cache"`
	TTL      string `json:"ttl_class"`
	Stall    string `json:"stall_method"`
	StallDur string `json:"stall_virtual_duration"`
	Path     string `json:"read_path"`
	Via      string `json:"written_by"`
	Retime   string `json:"retime"`
}

func (e *c03Env) judge(r *Run, cs c03Case, rd c03Read) bool {
	e.mu.Lock()
	w := e.writes[rd.val]
	e.mu.Unlock()
	if w == nil {
		return false // values without a TTL record (none in this workload) are not C03's business
	}
	if rd.tInv < w.dHi {
		return false
	}
	age := rd.tInv - rd.cached
	remainingAtCached := w.dHi - rd.cached
	key := "served-stale/" + rd.path
	if age >= 30e9 && remainingAtCached >= 30e9-int64(time.Millisecond) {
		key = "served-stale/cached-clock-age>=30s/remaining-at-cached>=30s"
	} else if age >= 30e9 {
		key += "/cached-clock-age>=30s"
	} else {
		key += "/cached-clock-fresh"
	}
	r.Violate(key, fmt.Sprintf("%s returned value %#x (ttl %v, written at %d, latest possible deadline %d) on a read invoked at %d = %.6f s after the deadline; cached clock was %.3f s old",
		rd.path, rd.val, w.ttl, w.tRet, w.dHi, rd.tInv, float64(rd.tInv-w.dHi)/1e9, float64(age)/1e9),
		map[string]any{"case": cs, "value": rd.val, "ttl_ns": int64(w.ttl), "write_returned_at": w.tRet, "deadline": w.dHi, "read_invoked_at": rd.tInv, "cached_clock": rd.cached})
	return true
}

type blockingWriter struct {
	gate  chan struct{}
	first chan struct{}
	once  sync.Once
	buf   bytes.Buffer
}

func (b *blockingWriter) Write(p []byte) (int, error) {
	b.once.Do(func() { close(b.first) })
	<-b.gate
	return b.buf.Write(p)
}

var c03TTLs = []struct {
	name string
	ttl  time.Duration
}{
	{"1ns", 1}, {"1us", time.Microsecond}, {"1ms", time.Millisecond}, {"1s", time.Second}, {"29.9s", 29900 * time.Millisecond},
	{"30s", 30 * time.Second}, {"30.1s", 30100 * time.Millisecond}, {"40s", 40 * time.Second}, {"2h", 2 * time.Hour}, {"7d", 7 * 24 * time.Hour},
}
var c03Stalls = []struct {
	name string
	d    time.Duration
}{{"0", 0}, {"0.5s", 500 * time.Millisecond}, {"29s", 29 * time.Second}, {"31s", 31 * time.Second}, {"5m", 5 * time.Minute}, {"2h", 2 * time.Hour}}

func c03RunCase(r *Run, rng *rand.Rand, cs c03Case, ttl, stallDur time.Duration) {
	e := newC03Env(cs.Kind)
	defer e.close()
	st := e.st
	k := 7
	// some unrelated resident entries
	for i := 100; i < 110; i++ {
		e.setTTL(i, 10*24*time.Hour)
	}
	var w *c03Write
	if cs.Via == "loader" {
		w = e.loadTTL(k, ttl)
	} else {
		w = e.setTTL(k, ttl)
	}
	if w == nil {
		r.Inconclusive(1)
		return
	}
	if e.c != nil {
		e.c.Wait()
	} else {
		e.lc.Wait()
	}
	switch cs.Retime {
	case "shorten":
		nt := ttl / 2
		if nt < 1 {
			nt = 1
		}
		w = e.setTTL(k, nt)
	case "lengthen":
		w = e.setTTL(k, ttl+time.Duration(rng.Int63n(int64(ttl)+1)))
	}
	// ---- stall maintenance
	release := func() {}
	switch cs.Stall {
	case "policy-lock":
		st.VerifPolicyLock()
		release = st.VerifPolicyUnlock
	case "slow-listener":
		gate := make(chan struct{})
		e.nl.mu.Lock()
		e.nl.gate = gate
		e.nl.mu.Unlock()
		before := len(e.nl.snapshot())
		if e.c != nil {
			e.c.Delete(100)
		} else {
			e.lc.Delete(100)
		}
		// wait for the maintenance goroutine to enter the listener (it then holds the policy lock)
		ok := false
		for i := 0; i < 20000; i++ {
			if len(e.nl.snapshot()) > before {
				ok = true
				break
			}
			time.Sleep(50 * time.Microsecond)
		}
		release = func() {
			e.nl.mu.Lock()
			e.nl.gate = nil
			e.nl.mu.Unlock()
			close(gate)
		}
		if !ok {
			release()
			r.Inconclusive(1)
			return
		}
	case "slow-savecache":
		bw := &blockingWriter{gate: make(chan struct{}), first: make(chan struct{})}
		done := make(chan struct{})
		go func() {
			if e.c != nil {
				_ = e.c.SaveCache(1, bw)
			} else {
				_ = e.lc.SaveCache(1, bw)
			}
			close(done)
		}()
		select {
		case <-bw.first:
		case <-time.After(20 * time.Second):
			close(bw.gate)
			r.Inconclusive(1)
			return
		}
		release = func() { close(bw.gate); <-done }
	}
	defer release()
	stalled := cs.Stall != "none"
	shift := func(d time.Duration) {
		if d <= 0 {
			return
		}
		// when maintenance is stalled somebody else holds the policy lock and nobody reads the clock
		st.VerifShiftClock(d, !stalled)
	}
	if stalled {
		shift(stallDur)
	}
	// ---- sweep reads across the deadline
	judged := 0
	sweep := func(path string) {
		now := st.VerifNowNano()
		if w.dHi == math.MaxInt64 {
			return
		}
		// While maintenance is stalled a Get that fills a read-buffer stripe blocks on the policy lock,
		// so a stalled Get path gets a handful of precisely placed reads; otherwise a dense sweep.
		sparse := stalled && path != "range"
		lead := int64(150 * time.Microsecond)
		if sparse {
			lead = int64(30 * time.Microsecond)
		}
		if w.dHi-lead > now {
			shift(time.Duration(w.dHi - lead - now))
		}
		if sparse {
			for _, off := range []int64{-20000, -5000, -1000, 0, 1000, 5000, 50000} {
				for st.VerifNowNano() < w.dHi+off {
				}
				for _, rd := range e.read(path, k) {
					judged++
					if e.judge(r, cs, rd) {
						return
					}
				}
			}
			return
		}
		for i := 0; i < 4000; i++ {
			for _, rd := range e.read(path, k) {
				if rd.val == w.val || rd.path != "range" {
					judged++
				}
				if e.judge(r, cs, rd) {
					return
				}
			}
			if st.VerifNowNano() > w.dHi+int64(150*time.Microsecond) {
				break
			}
		}
	}
	sweep(cs.Path)
	// ---- later reads: one tick, the stall length, an hour after the deadline
	for _, d := range []time.Duration{time.Second + time.Duration(rng.Intn(1000))*time.Millisecond, 35 * time.Second, time.Hour} {
		shift(d)
		for _, p := range []string{cs.Path, "range"} {
			if stalled && p != "range" && judged > 11 {
				continue
			}
			for _, rd := range e.read(p, k) {
				judged++
				e.judge(r, cs, rd)
			}
		}
	}
	r.Eval(1)
	r.Count("reads_judged", int64(judged))
	r.Distinct(fmt.Sprintf("%s/%s/%s/%s/%s/%s/%s", cs.Kind, cs.TTL, cs.Stall, cs.StallDur, cs.Path, cs.Via, cs.Retime))
	r.Sample(5, cs)
}

// c03Concurrent: many readers sweep across a deadline in real (un-shifted)
// time while writers keep re-timing other keys.
func c03Concurrent(r *Run, idx int, rng *rand.Rand) {
	e := newC03Env("plain")
	defer e.close()
	st := e.st
	keys := 8
	ws := make([]*c03Write, keys)
	for k := 0; k < keys; k++ {
		ws[k] = e.setTTL(k, time.Duration(300+rng.Intn(1500))*time.Microsecond)
	}
	var wg sync.WaitGroup
	stop := st.VerifNowNano() + int64(4*time.Millisecond)
	var nreads atomic.Int64
	cs := c03Case{Kind: "plain", TTL: "300us-1.8ms", Stall: "none", Path: "concurrent-get+range", Via: "set"}
	for g := 0; g < 8; g++ {
		wg.Add(1)
		go func(g int) {
			defer wg.Done()
			gr := rand.New(rand.NewSource(int64(idx*100 + g)))
			for st.VerifNowNano() < stop {
				k := gr.Intn(keys)
				p := "get"
				if gr.Intn(8) == 0 {
					p = "range"
				}
				for _, rd := range e.read(p, k) {
					nreads.Add(1)
					e.judge(r, cs, rd)
				}
				if g == 0 && gr.Intn(4) == 0 {
					e.setTTL(k, time.Duration(100+gr.Intn(800))*time.Microsecond)
				}
			}
		}(g)
	}
	wg.Wait()
	r.Eval(1)
	r.Count("reads_judged", nreads.Load())
	r.Distinct(fmt.Sprintf("concurrent/%d", idx%64))
}

// c03RestoredThenFailed: deadlines of entries that a LoadCache restored before it failed. A cache that has been up for
// a while saves TTL entries; the stream is damaged near its end (cut short by a few bytes, or a byte of the last blocks
// flipped), so LoadCache into a fresh cache reads the entries and then returns an error. Whatever it left in the
// cache is subject to the property: once the entry's deadline - as established by the Set in the saving cache - has
// passed, no Get or Range may hand it out. Time: the saving cache's clock is the reference (virtual wall clock =
// its origin + its now + what the receiving cache was advanced by afterwards); the read is judged by that clock read
// BEFORE the call.
func c03RestoredThenFailed(r *Run, idx int) {
	rng := r.Rng(int64(3900 + idx))
	src, err := theine.NewBuilder[int, int64](1000).Build()
	if err != nil {
		r.Broken("build: %v", err)
		return
	}
	defer src.Close()
	sst := src.VerifStore()
	uptime := []time.Duration{2 * time.Second, 10 * time.Minute, 3 * time.Hour}[idx%3]
	sst.VerifShiftClock(uptime, true)
	sst.VerifRefreshClock()
	n := 20 + rng.Intn(40)
	for k := 0; k < n; k++ {
		src.SetWithTTL(k, int64(k)+1000, 1, time.Duration(2+rng.Intn(40))*time.Second)
	}
	src.Wait()
	deadline := map[int]int64{}
	for _, e := range sst.VerifSnapshot().Map {
		deadline[e.Key] = sst.VerifClockStartNano() + e.Expire
	}
	var buf bytes.Buffer
	if err := src.SaveCache(1, &buf); err != nil {
		r.Broken("save: %v", err)
		return
	}
	data := append([]byte(nil), buf.Bytes()...)
	damage := []string{"last 3 bytes missing", "last 40 bytes missing", "a byte flipped 20 bytes before the end"}[idx/3%3]
	switch damage {
	case "last 3 bytes missing":
		data = data[:len(data)-3]
	case "last 40 bytes missing":
		data = data[:len(data)-40]
	default:
		data[len(data)-20] ^= 0x41
	}
	dst, err := theine.NewBuilder[int, int64](1000).Build()
	if err != nil {
		r.Broken("build: %v", err)
		return
	}
	defer dst.Close()
	dstt := dst.VerifStore()
	lerr := dst.LoadCache(1, bytes.NewReader(data))
	r.Eval(1)
	if lerr == nil {
		r.Count("restored_then_failed_rounds_where_the_damage_went_unnoticed", 1) // C12's business
		return
	}
	restored := dst.Len()
	if restored == 0 {
		r.Count("restored_then_failed_rounds_with_nothing_restored", 1)
		return
	}
	r.Count("restored_then_failed_rounds", 1)
	r.Count("entries_left_by_failed_loads", int64(restored))
	var advanced, lag time.Duration
	virt := func() int64 { return sst.VerifClockStartNano() + sst.VerifNowNano() + int64(advanced) }
	for step := 0; step < 12; step++ {
		d := time.Duration(1+rng.Intn(8)) * time.Second
		dstt.VerifShiftClock(d, true)
		advanced += d
		// the cached clock may lag (no tick has run yet), but by less than the 30 s the read path tolerates: a longer
		// lag is the stalled-maintenance case, which has its own cases and its own open finding
		if lag += d; rng.Intn(2) == 0 || lag > 20*time.Second {
			dstt.VerifRefreshClock()
			lag = 0
		}
		for k, dl := range deadline {
			before := virt()
			v, ok := dst.Get(k)
			if ok && before >= dl {
				r.Violate("served-expired/get/entry-restored-by-a-loadcache-that-then-failed", fmt.Sprintf("round %d: saving cache up for %v, stream with %s, LoadCache returned %q and left %d entries; key %d (value %d) was returned by Get %.1f s after its deadline", idx, uptime, damage, lerr, restored, k, v, float64(before-dl)/1e9),
					map[string]any{"round": idx, "uptime_of_the_saving_cache": uptime.String(), "damage": damage, "error": lerr.Error()})
				return
			}
			r.Count("reads_of_entries_left_by_failed_loads", 1)
		}
		before := virt()
		bad := -1
		dst.Range(func(k int, v int64) bool {
			if dl, ok := deadline[k]; ok && before >= dl {
				bad = k
				return false
			}
			return true
		})
		if bad >= 0 {
			r.Violate("served-expired/range/entry-restored-by-a-loadcache-that-then-failed", fmt.Sprintf("round %d: saving cache up for %v, stream with %s, LoadCache returned %q and left %d entries; Range visited key %d after its deadline", idx, uptime, damage, lerr, restored, bad),
				map[string]any{"round": idx, "uptime_of_the_saving_cache": uptime.String(), "damage": damage, "error": lerr.Error()})
			return
		}
	}
	r.Distinct(fmt.Sprintf("restored-then-failed/%v/%s", uptime, damage))
}

func runC03(r *Run) {
	r.Rule("case = (cache kind, TTL class, maintenance stall method x virtual stall duration, read path, written by Set or loader, TTL re-timing) with a sweep of reads across the deadline and later reads at +1 tick / +35 s / +1 h; plus concurrent real-time sweeps; plus, on hybrid / hybrid-loading caches, scripted single-key lives (Set / loader / forced eviction to the secondary tier / deadline passing in either tier with the cached clock refreshed or lagging / Delete) in which a Get answered without a loader run must not return a value whose deadline has passed. " +
		"Non-trivial = every case (each places reads within microseconds of a deadline or behind a stale cached clock); distinct by the case tuple")
	r.Assume("deadline used = virtual time at the RETURN of the write + ttl (the latest the deadline can be); a read is judged by the instant it was invoked",
		"virtual time: the cache's clock origin is shifted while no client call is in flight; during a stall the policy lock is held by the staller so nobody reads the clock concurrently")
	type job struct {
		cs    c03Case
		ttl   time.Duration
		stall time.Duration
	}
	var jobs []job
	rng := r.Rng(1)
	stallMethods := []string{"none", "policy-lock", "slow-listener", "slow-savecache"}
	paths := map[string][]string{"plain": {"get", "range"}, "loading": {"loading-get", "range"}}
	n := r.Pick(5000, 60000)
	for i := 0; i < n; i++ {
		kind := []string{"plain", "loading"}[rng.Intn(2)]
		t := c03TTLs[rng.Intn(len(c03TTLs))]
		sm := stallMethods[rng.Intn(len(stallMethods))]
		sd := c03Stalls[rng.Intn(len(c03Stalls))]
		if sm == "none" {
			sd = c03Stalls[0]
		}
		via := "set"
		if kind == "loading" && rng.Intn(2) == 0 {
			via = "loader"
		}
		if sm == "slow-savecache" && kind == "loading" {
			// SaveCache holds every shard read lock: a loading Get that misses would wait for it forever
			sm = "policy-lock"
		}
		cs := c03Case{Kind: kind, TTL: t.name, Stall: sm, StallDur: sd.name, Path: paths[kind][rng.Intn(2)], Via: via,
			Retime: []string{"none", "none", "shorten", "lengthen"}[rng.Intn(4)]}
		jobs = append(jobs, job{cs, t.ttl, sd.d})
	}
	parMap(len(jobs), 12, func(i int) {
		c03RunCase(r, r.Rng(int64(1000+i)), jobs[i].cs, jobs[i].ttl, jobs[i].stall)
	})
	nc := r.Pick(200, 3000)
	parMap(nc, 4, func(i int) { c03Concurrent(r, i, r.Rng(int64(500000+i))) })
	// hybrid and hybrid-loading caches: single-key lives crossing the two tiers (c15.go lifeScript), judged here for
	// deadlines only; sequential, because the hand-off barrier uses the process-wide hook
	nl := r.Pick(200, 6000)
	for i := 0; i < nl; i++ {
		if i%r.NShards == r.Shard {
			lifeScript(r, i, "C03")
		}
	}
	// restored deadlines falling right after a LoadCache, in real time (c11.go)
	for i := 0; i < r.Pick(3, 24); i++ {
		c11DeadlineRightAfterLoad(r, 100+i)
	}
	for i := 0; i < r.Pick(9, 90); i++ {
		if i%r.NShards == r.Shard {
			c03RestoredThenFailed(r, i)
		}
	}
	for i := 0; i < r.Pick(48, 480); i++ {
		if i%r.NShards == r.Shard {
			loadIntoCacheInUse(r, i, "C03")
		}
	}
}

// loadIntoCacheInUse: a cache that has been up for a while and holds TTL entries of its own (on the hybrid kinds half
// of them demoted to the secondary store) loads a snapshot taken from another cache - younger, older, or as old.
// Afterwards virtual time is stepped across the deadlines. Judged under C03: no entry the cache held before the load
// (and none it restored) is returned by Get / Range after its deadline. Judged under C06: no entry it held before the
// load, whose deadline is still more than two seconds away, has disappeared (the cache is a tenth full, nothing was
// deleted). Reference time = wall clock + the virtual advance; deadlines = clock origin + stored deadline, read from
// each cache's own entries before the load.
func loadIntoCacheInUse(r *Run, idx int, prop string) {
	rng := r.Rng(int64(3700 + idx))
	kind := anyKinds[idx%4]
	ownUp := []time.Duration{10 * time.Minute, 7 * time.Second, 3 * time.Hour, 90 * time.Second}[idx/4%4]
	srcUp := []time.Duration{0, 2 * time.Hour, 40 * time.Second}[idx/16%3]
	bar := &secBarrier{}
	internal.VerifSetHook(bar.hook)
	defer internal.VerifSetHook(nil)
	var loads atomic.Int64
	dst, err := newAnyCache(kind, anyOpts{MaxSize: 2000, KeepLog: true, Workers: 1, Prob: 1, ProbSet: true,
		Loader: func(ctx context.Context, k int) (theine.Loaded[int64], error) {
			return theine.Loaded[int64]{Value: 6_600_000 + loads.Add(1), Cost: 1}, nil
		}})
	if err != nil {
		r.Broken("build: %v", err)
		return
	}
	defer dst.store().Close()
	dstt := dst.store()
	dstt.VerifShiftClock(ownUp, true)
	dstt.VerifRefreshClock()
	src, err := newAnyCache("plain", anyOpts{MaxSize: 2000})
	if err != nil {
		r.Broken("build: %v", err)
		return
	}
	defer src.store().Close()
	if srcUp > 0 {
		src.store().VerifShiftClock(srcUp, true)
		src.store().VerifRefreshClock()
	}
	defer r.Eval(1)
	n := 30 + rng.Intn(40)
	val := func(k int) int64 { return int64(k)<<8 | 3 }
	for k := 0; k < n; k++ {
		dst.set(k, val(k), 1, time.Duration(4+rng.Intn(50))*time.Second)
		src.set(1000+k, val(1000+k), 1, time.Duration(4+rng.Intn(50))*time.Second)
	}
	dst.wait()
	src.wait()
	deadline := map[int]int64{}
	for _, e := range dstt.VerifSnapshot().Map {
		deadline[e.Key] = dstt.VerifClockStartNano() + e.Expire
	}
	for _, e := range src.store().VerifSnapshot().Map {
		deadline[e.Key] = src.store().VerifClockStartNano() + e.Expire
	}
	demoted := 0
	if dst.hybrid() {
		for k := 0; k < n; k += 2 {
			if bar.demote(dst, k) {
				demoted++
			}
		}
	}
	var buf bytes.Buffer
	if err := src.save(1, &buf); err != nil {
		r.Broken("save: %v", err)
		return
	}
	if err := dst.load(1, &buf); err != nil {
		r.Broken("load: %v", err)
		return
	}
	var advanced time.Duration
	ref := func() int64 { return time.Now().UnixNano() + int64(advanced) }
	wit := map[string]any{"round": idx, "cache": kind, "uptime_of_the_receiving_cache": ownUp.String(), "uptime_of_the_saving_cache": srcUp.String(), "own_entries_demoted_before_the_load": demoted}
	desc := fmt.Sprintf("round %d: %s cache up for %v holding %d TTL entries of its own (%d of them in its secondary store) loaded a snapshot of %d entries from a cache up for %v", idx, kind, ownUp, n, demoted, n, srcUp)
	const slack = int64(20 * time.Millisecond) // wall clock against the cache's monotonic clock
	late, early, firstLate, firstEarly := 0, 0, "", ""
	var lag time.Duration
	for step := 0; step < 14; step++ {
		d := time.Duration(1+rng.Intn(7)) * time.Second
		dstt.VerifShiftClock(d, true)
		advanced += d
		if lag += d; rng.Intn(2) == 0 || lag > 20*time.Second {
			dstt.VerifRefreshClock() // the cached clock lags by less than the 30 s the read path tolerates
			lag = 0
		}
		for k, dl := range deadline {
			own := k < 1000
			before := ref()
			l0 := loads.Load()
			v, ok, gerr := dst.get(context.Background(), k)
			after := ref()
			loaded := loads.Load() > l0
			switch {
			case gerr != nil:
			case ok && !loaded && v == val(k) && before >= dl+slack:
				late++
				if firstLate == "" {
					firstLate = fmt.Sprintf("key %d (%s) returned by Get %.1f s after its deadline", k, map[bool]string{true: "held before the load", false: "restored by the load"}[own], float64(before-dl)/1e9)
				}
			case own && (!ok || loaded) && after < dl-int64(2*time.Second):
				early++
				if firstEarly == "" {
					firstEarly = fmt.Sprintf("key %d, held before the load, is gone %.1f s before its deadline (Get: ok=%v, loader ran=%v)", k, float64(dl-after)/1e9, ok, loaded)
				}
				delete(deadline, k) // report a key once
			}
			r.Count("reads_after_a_load_into_a_cache_in_use", 1)
		}
		if !dst.hybrid() {
			before := ref()
			dst.rangeAll(func(k int, v int64) bool {
				if dl, ok := deadline[k]; ok && v == val(k) && before >= dl+slack { // (a loading Get may have stored a new value meanwhile)
					late++
					if firstLate == "" {
						firstLate = fmt.Sprintf("key %d visited by Range %.1f s after its deadline", k, float64(before-dl)/1e9)
					}
				}
				return true
			})
		}
	}
	if prop == "C03" && late > 0 {
		r.Violate("served-expired/after-loadcache-into-a-cache-in-use", fmt.Sprintf("%s; then %d reads returned a value after its deadline (first: %s)", desc, late, firstLate), wit)
	}
	if prop == "C06" && early > 0 {
		r.Violate("value-lost-without-reason/before-its-deadline/after-loadcache-into-a-cache-in-use", fmt.Sprintf("%s; then %d of its own entries disappeared more than 2 s before their deadline, with the cache a tenth full and nothing deleted (first: %s)", desc, early, firstEarly), wit)
	}
	r.Count("loads_into_a_cache_in_use", 1)
	r.Distinct(fmt.Sprintf("load-into-cache-in-use/%s/own=%v/src=%v", kind, ownUp, srcUp))
}
