package main

import (
	"bytes"
	"fmt"
	theine "github.com/Yiling-J/theine-go"
	"math/bits"
	"math/rand"

	"github.com/Yiling-J/theine-go/internal"
)

// C17 — frequency sketch never under-counts and ages predictably.
//
// Monitor: the real CountMinSketch is driven with generated operation
// sequences while a reference keeps the exact number of recordings per hash
// since the last reset / growth. After every operation the oracle checks the
// lower bound, the structural fields, and — around every reset — that each
// 4-bit counter was exactly halved.

func init() { registry["C17"] = runC17 }

type c17Case struct {
	Size    uint   `json:"table_size_request"`
	Pattern string `json:"hash_pattern"`
	Mix     string `json:"op_mix"`
	Ops     int    `json:"ops"`
	Resets  int    `json:"resets"`
	Sat     int    `json:"saturated_estimates"`
	Grow    int    `json:"growths"`
}

func c17Hashes(rng *rand.Rand, pattern string, n int, blockMask uint64) []uint64 {
	hs := make([]uint64, 0, n)
	switch pattern {
	case "extremes":
		base := []uint64{0, ^uint64(0), 1 << 63, 1, 1<<63 - 1, 0x8000000000000001, 0xFFFFFFFF00000000, 0x00000000FFFFFFFF, 0xAAAAAAAAAAAAAAAA, 0x5555555555555555}
		for len(hs) < n {
			hs = append(hs, base[len(hs)%len(base)]^uint64(len(hs)/len(base)))
		}
	case "oneblock":
		// many keys whose block bits are identical
		blk := rng.Uint64() & blockMask
		for len(hs) < n {
			hs = append(hs, (rng.Uint64()&^blockMask)|blk)
		}
	case "sequential":
		st := rng.Uint64()
		for len(hs) < n {
			hs = append(hs, st+uint64(len(hs)))
		}
	case "highbits":
		for len(hs) < n {
			hs = append(hs, uint64(len(hs)+1)<<48)
		}
	case "few":
		k := 1 + rng.Intn(4)
		base := make([]uint64, k)
		for i := range base {
			base[i] = rng.Uint64()
		}
		for len(hs) < n {
			hs = append(hs, base[len(hs)%k])
		}
	default: // random
		for len(hs) < n {
			hs = append(hs, rng.Uint64())
		}
	}
	return hs
}

type c17Mon struct {
	r          *Run
	s          *internal.CountMinSketch
	ref        map[uint64]uint64
	sinceReset uint // Additions increments seen since last reset
	ownChanged uint // Adds since the last reset / growth that changed the table, counted from the table itself (small tables)
	// reference for "ages predictably" (small tables): how many table-changing additions the current sample period
	// is to last. A new or grown table starts a full period; after a reset the period is shortened by what the
	// halved counters still stand for, (SampleSize - odd/4)/2, with odd = number of odd counters just before the
	// halving - known to the monitor up to the four counters the triggering addition touched, hence periodTol.
	period    int // -1 = unknown
	periodTol int
	cs        c17Case
	trace     []string
	bad       bool
}

func (m *c17Mon) note(f string, a ...any) {
	if len(m.trace) < 4000 {
		m.trace = append(m.trace, fmt.Sprintf(f, a...))
	} else {
		// keep the tail
		copy(m.trace, m.trace[1000:])
		m.trace = append(m.trace[:3000], fmt.Sprintf(f, a...))
	}
}

func (m *c17Mon) violate(key, what string) {
	m.bad = true
	tail := m.trace
	if len(tail) > 60 {
		tail = tail[len(tail)-60:]
	}
	m.r.Violate(key, what, map[string]any{"case": m.cs, "last_ops": tail,
		"table_len": len(m.s.Table), "additions": m.s.Additions, "sample_size": m.s.SampleSize, "block_mask": m.s.BlockMask})
}

func (m *c17Mon) checkStruct(where string) {
	s := m.s
	n := len(s.Table)
	if n < 16 || n&(n-1) != 0 {
		m.violate("table-size-not-pow2>=16", fmt.Sprintf("%s: table length %d is not a power of two >= 16", where, n))
	}
	if n >= 8 && s.BlockMask != uint(n/8-1) {
		m.violate("blockmask-mismatch", fmt.Sprintf("%s: BlockMask %d != len/8-1 = %d", where, s.BlockMask, n/8-1))
	}
	if s.Additions >= s.SampleSize {
		m.violate("additions>=samplesize", fmt.Sprintf("%s: Additions %d >= SampleSize %d, the aging reset can no longer trigger", where, s.Additions, s.SampleSize))
	}
}

func (m *c17Mon) checkEstimate(h uint64, where string) {
	est := m.s.Estimate(h)
	want := m.ref[h]
	if want > 15 {
		want = 15
	}
	if uint64(est) < want {
		m.violate("estimate-undercount", fmt.Sprintf("%s: Estimate(%#x)=%d < min(15, recorded=%d)", where, h, est, m.ref[h]))
	}
	if est > 15 {
		m.violate("estimate>15", fmt.Sprintf("%s: Estimate(%#x)=%d exceeds the 4-bit maximum", where, h, est))
	}
	if est == 15 {
		m.cs.Sat++
	}
}

func (m *c17Mon) safely(what string, f func()) {
	defer func() {
		if p := recover(); p != nil {
			m.violate("panic-in-sketch", fmt.Sprintf("%s panicked: %v", what, p))
		}
	}()
	f()
}

// checkHalved verifies table == halve(before) except for at most 4 counters
// (the ones the resetting Add incremented first), which must equal (old+1)>>1.
func (m *c17Mon) checkHalved(before []uint64) {
	diff := 0
	for i, old := range before {
		nw := m.s.Table[i]
		if nw == (old>>1)&0x7777777777777777 {
			continue
		}
		for c := 0; c < 16; c++ {
			o := (old >> (4 * c)) & 0xF
			n := (nw >> (4 * c)) & 0xF
			if n == o>>1 {
				continue
			}
			if n == (o+1)>>1 && o < 15 {
				diff++
				continue
			}
			m.violate("reset-not-halving", fmt.Sprintf("reset turned counter %d of word %d from %d into %d (want %d)", c, i, o, n, o>>1))
			return
		}
	}
	if diff > 4 {
		m.violate("reset-not-halving", fmt.Sprintf("reset changed %d counters beyond halving (at most 4 may carry the triggering increment)", diff))
	}
}

func (m *c17Mon) add(h uint64) {
	s := m.s
	var before []uint64
	willReset := s.Additions+1 == s.SampleSize
	if willReset {
		before = append([]uint64(nil), s.Table...)
	}
	addsBefore := s.Additions
	// independent of the sketch's own bookkeeping: did this Add change the table? (tables up to 1024 words)
	small := len(s.Table) <= 1024
	if small && before == nil {
		before = append([]uint64(nil), s.Table...)
	}
	var reset bool
	var tblBefore []uint64
	if small {
		tblBefore = before
	}
	m.safely(fmt.Sprintf("Add(%#x)", h), func() { reset = s.Add(h) })
	m.note("Add(%#x)->%v additions=%d", h, reset, s.Additions)
	if small && reset && len(tblBefore) == len(s.Table) && m.period >= 0 {
		got := int(m.ownChanged) + 1 // the addition that triggered the reset changed the table too
		if got < m.period-m.periodTol || got > m.period+m.periodTol {
			m.violate("reset-off-period", fmt.Sprintf("an aging reset came after %d table-changing additions; the sample period that began at the previous reset / growth was to last %d (+-%d) (SampleSize %d, the sketch's own count said %d before this addition)", got, m.period, m.periodTol, s.SampleSize, addsBefore))
		}
	}
	if small && reset && len(tblBefore) == len(s.Table) {
		odd := 0
		for _, w := range tblBefore {
			odd += bits.OnesCount64(w & 0x1111111111111111)
		}
		m.period = int(s.SampleSize) - (int(s.SampleSize)-odd/4)/2
		m.periodTol = 2
		m.r.Count("resets_checked_against_the_reference_period", 1)
	}
	if small && !reset && len(before) == len(s.Table) {
		for i := range before {
			if before[i] != s.Table[i] {
				m.ownChanged++
				break
			}
		}
		if m.period >= 0 && int(m.ownChanged) > m.period+m.periodTol {
			m.violate("reset-overdue/relative-to-the-carried-count", fmt.Sprintf("%d additions have changed the table since the last reset / growth; the sample period was to last %d (+-%d) (SampleSize %d; the sketch's own count says %d)", m.ownChanged, m.period, m.periodTol, s.SampleSize, s.Additions))
			m.period = -1
		}
		if m.ownChanged >= s.SampleSize {
			m.violate("reset-overdue", fmt.Sprintf("%d additions have changed the table since the last reset (sample period %d) and no reset has happened; the sketch's own count says %d", m.ownChanged, s.SampleSize, s.Additions))
			m.ownChanged = 0
		}
	}
	if !willReset {
		before = nil
	}
	if reset {
		m.ownChanged = 0
		m.cs.Resets++
		if before != nil {
			m.checkHalved(before)
		} else {
			m.violate("reset-at-unexpected-count", fmt.Sprintf("Add reported a reset at Additions=%d, SampleSize=%d", addsBefore, s.SampleSize))
		}
		if s.Additions > s.SampleSize/2 {
			m.violate("additions-not-halved", fmt.Sprintf("after reset Additions=%d > SampleSize/2=%d", s.Additions, s.SampleSize/2))
		}
		m.ref = map[uint64]uint64{}
		m.sinceReset = 0
	} else {
		if willReset && s.Additions != addsBefore {
			m.violate("missed-reset", fmt.Sprintf("Additions reached SampleSize=%d without a reset", s.SampleSize))
		}
		m.ref[h]++
		if s.Additions != addsBefore {
			m.sinceReset++
		}
	}
	m.checkStruct("after Add")
	m.checkEstimate(h, "after Add")
}

func (m *c17Mon) addn(h uint64, n int) {
	m.safely(fmt.Sprintf("Addn(%#x,%d)", h, n), func() { m.s.Addn(h, n) })
	m.note("Addn(%#x,%d)", h, n)
	m.ref[h] += uint64(n)
	m.checkStruct("after Addn")
	m.checkEstimate(h, "after Addn")
}

func (m *c17Mon) ensure(size uint) {
	oldLen := len(m.s.Table)
	m.safely(fmt.Sprintf("EnsureCapacity(%d)", size), func() { m.s.EnsureCapacity(size) })
	m.note("EnsureCapacity(%d) len %d->%d", size, oldLen, len(m.s.Table))
	if len(m.s.Table) < oldLen {
		m.violate("table-shrank", fmt.Sprintf("EnsureCapacity(%d) shrank the table from %d to %d", size, oldLen, len(m.s.Table)))
	}
	if len(m.s.Table) < int(size) && size <= 1<<24 {
		m.violate("table-too-small", fmt.Sprintf("EnsureCapacity(%d) left table length %d", size, len(m.s.Table)))
	}
	if len(m.s.Table) != oldLen {
		m.cs.Grow++
		m.ref = map[uint64]uint64{}
		m.sinceReset = 0
		m.ownChanged = 0
		m.period, m.periodTol = int(m.s.SampleSize), 0
		// a grown table starts a new epoch and must be empty
		for i, w := range m.s.Table {
			if w != 0 {
				m.violate("grown-table-not-empty", fmt.Sprintf("word %d = %#x after growth", i, w))
				break
			}
		}
	}
	m.checkStruct("after EnsureCapacity")
}

// c17InStore: the sketch as the cache drives it, including the bulk additions of LoadCache into a cache that is
// already in use (its own additions plus the restored frequencies): after every step the addition count must stay
// below the sample size (a count at or past it can never meet the reset's equality test again), and over the next
// three sample periods of reads at least one aging reset must be seen.
func c17InStore(r *Run, idx int) {
	rng := r.Rng(int64(17500 + idx))
	M := []int64{64, 256, 1024}[rng.Intn(3)]
	mk := func() (*theine.Cache[int, int64], error) { return theine.NewBuilder[int, int64](M).Build() }
	src, err := mk()
	if err != nil {
		r.Broken("build: %v", err)
		return
	}
	defer src.Close()
	hot := func(c *theine.Cache[int, int64], base, n, reps int) {
		for k := 0; k < n; k++ {
			c.Set(base+k, int64(k), 1)
		}
		c.Wait()
		for rep := 0; rep < reps; rep++ {
			for k := 0; k < n; k++ {
				c.Get(base + k)
			}
		}
		c.Wait()
	}
	hot(src, 0, int(M)/2, 9+rng.Intn(8)) // half full, so that the load does not grow the target's table (growth starts a new sample)
	var buf bytes.Buffer
	if err := src.SaveCache(1, &buf); err != nil {
		r.Broken("save: %v", err)
		return
	}
	dst, err := mk()
	if err != nil {
		r.Broken("build: %v", err)
		return
	}
	defer dst.Close()
	st := dst.VerifStore()
	hot(dst, 1<<20, int(M)/2, 6+rng.Intn(8)) // the target is in use and half full: its sketch has additions of its own, and there is room to restore into
	a0, ss0, _ := st.VerifSketchCounts()
	if err := dst.LoadCache(1, &buf); err != nil {
		r.Broken("load: %v", err)
		return
	}
	a1, ss1, tl := st.VerifSketchCounts()
	wit := map[string]any{"maxsize": M, "additions_before_load": a0, "sample_size_before_load": ss0, "additions_after_load": a1, "sample_size_after_load": ss1, "table_len": tl}
	if a1 >= ss1 {
		r.Violate("additions>=samplesize/after-loadcache-into-a-cache-in-use", fmt.Sprintf("in-store case %d (MaxSize %d): after LoadCache into a cache in use the sketch counts %d additions with a sample size of %d (before the load: %d of %d): the aging reset tests for equality and can no longer trigger", idx, M, a1, ss1, a0, ss0), wit)
		return
	}
	// resets keep occurring: over three sample periods of reads of resident keys the count must fall at least once
	sawReset := false
	last := a1
	steps := 0
	for steps < 3*int(ss1)+64 && !sawReset {
		for k := 0; k < 64; k++ {
			dst.Get(rng.Intn(int(M)))
			dst.Get(1<<20 + rng.Intn(int(M)/2))
		}
		steps += 128
		a, ss, _ := st.VerifSketchCounts()
		if a >= ss {
			r.Violate("additions>=samplesize/after-loadcache-into-a-cache-in-use", fmt.Sprintf("in-store case %d (MaxSize %d): %d reads after the load the sketch counts %d additions with a sample size of %d", idx, M, steps, a, ss), wit)
			return
		}
		if a < last {
			sawReset = true
		}
		last = a
	}
	r.Eval(1)
	r.Count("in_store_cases", 1)
	if sawReset {
		r.Count("in_store_cases_with_a_reset_after_the_load", 1)
		r.Distinct(fmt.Sprintf("in-store/M%d", M))
	} else {
		// reads of entries whose counters are saturated do not count as additions: no verdict from silence
		r.Count("in_store_cases_without_a_reset_in_three_periods", 1)
	}
}

func runC17(r *Run) {
	for i := 0; i < r.Pick(12, 120); i++ {
		c17InStore(r, i)
	}
	r.Rule("case = one generated operation sequence (table size x hash pattern x op mix) against the real CountMinSketch with an exact reference; " +
		"non-trivial = the sequence contained at least one aging reset and at least one estimate saturated at 15; distinct by (table size, pattern, mix, #resets, #growths)")
	r.Assume("reference counts restart at every reset and at every growth of the table (the property speaks of the interval between two resets)",
		"index range is decided by Go's bounds checks (a panic is a violation)")
	sizes := []uint{1, 16, 17, 64, 100, 128, 1000, 1 << 12, 1 << 16}
	if r.Thorough() {
		sizes = append(sizes, 1<<18, 1<<20, 1<<22, 1<<24)
	} else {
		sizes = append(sizes, 1<<18)
	}
	patterns := []string{"random", "extremes", "oneblock", "sequential", "highbits", "few"}
	mixes := []string{"add", "add+addn", "add+grow", "all"}
	type job struct {
		size         uint
		pattern, mix string
		rep          int
	}
	var jobs []job
	reps := r.Pick(2, 12)
	for _, sz := range sizes {
		for _, p := range patterns {
			for _, mx := range mixes {
				n := reps
				if sz >= 1<<20 {
					n = 1
				}
				for i := 0; i < n; i++ {
					jobs = append(jobs, job{sz, p, mx, i})
				}
			}
		}
	}
	parMap(len(jobs), 16, func(i int) {
		j := jobs[i]
		rng := r.Rng(int64(i))
		s := internal.NewCountMinSketch()
		m := &c17Mon{r: r, s: s, ref: map[uint64]uint64{}, period: int(s.SampleSize)}
		m.cs = c17Case{Size: j.size, Pattern: j.pattern, Mix: j.mix}
		m.ensure(j.size)
		// enough operations to force several resets on this table
		tableLen := uint(len(s.Table))
		nops := int(s.SampleSize)*3 + 2000
		maxOps := r.Pick(400000, 4000000)
		if tableLen >= 1<<22 {
			maxOps = r.Pick(400000, 60000000)
		}
		if nops > maxOps {
			nops = maxOps
		}
		nh := 64 + rng.Intn(int(tableLen)*2+1)
		if nh > 1<<20 {
			nh = 1 << 20
		}
		hs := c17Hashes(rng, j.pattern, nh, uint64(s.BlockMask))
		for op := 0; op < nops && !m.bad; op++ {
			h := hs[rng.Intn(len(hs))]
			if rng.Intn(3) == 0 {
				// skew towards a few hashes so counters saturate
				h = hs[rng.Intn(1+len(hs)/50)]
			}
			x := rng.Intn(1000)
			switch {
			case (j.mix == "add+addn" || j.mix == "all") && x < 30:
				m.addn(h, rng.Intn(20))
			case (j.mix == "add+grow" || j.mix == "all") && x >= 30 && x < 32 && len(s.Table) < 1<<17:
				cur := uint(len(s.Table))
				want := []uint{0, cur / 2, cur, cur + 1, cur*2 - 1, cur * 2}[rng.Intn(6)]
				m.ensure(want)
				if len(s.Table) != int(tableLen) {
					tableLen = uint(len(s.Table))
					hs = c17Hashes(rng, j.pattern, nh, uint64(s.BlockMask))
				}
			case x < 100:
				m.checkEstimate(h, "probe")
			default:
				m.add(h)
			}
			m.cs.Ops++
		}
		// final sweep: every recorded hash obeys the bound
		for h := range m.ref {
			m.checkEstimate(h, "final sweep")
			if m.bad {
				break
			}
		}
		r.Eval(1)
		r.Count("ops", int64(m.cs.Ops))
		r.Count("resets_observed", int64(m.cs.Resets))
		r.Count("growths_observed", int64(m.cs.Grow))
		r.Count("saturated_estimates", int64(m.cs.Sat))
		r.CountMax("max_table_len", int64(len(s.Table)))
		if m.cs.Resets > 0 && m.cs.Sat > 0 {
			r.Distinct(fmt.Sprintf("%d/%s/%s/%d/%d", j.size, j.pattern, j.mix, m.cs.Resets, m.cs.Grow))
		}
		r.Sample(6, m.cs)
	})
	_ = bits.Len
}
