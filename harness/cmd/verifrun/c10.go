package main

import (
	"bytes"
	"context"
	"errors"
	"fmt"
	"io"
	"math/rand"
	"strings"
	"sync"
	"sync/atomic"
	"time"

	theine "github.com/Yiling-J/theine-go"
	"github.com/Yiling-J/theine-go/internal"
)

// C10 — every call terminates, also when racing Close; Close is final and
// leak-free.
//
// One scenario = one cache (plain / loading / hybrid / hybrid-loading) with W
// writers and R readers running; optionally maintenance is stalled (removal
// listener blocked) so that the write queue fills and writers are parked on
// their event send; Close is called at a PRNG-chosen moment; then:
//  * termination: every client call (including Close itself and a Wait issued
//    after Close) returns. A call that does not is reported only when the
//    deadlock predicate proves it cannot: the goroutine is parked in a channel
//    operation inside the cache while the maintenance goroutine — the only
//    party that could complete it — no longer exists (two dumps apart);
//  * finality, probed through fresh calls after Close returned: Get misses for
//    keys that were resident, Set reports and changes nothing (Len 0, empty
//    Range, following Get misses), Delete is harmless, loading Get fails with
//    ErrCacheClosed;
//  * no leak: no goroutine started by this cache (created by NewStore /
//    maintenance, id above the pre-build high-water mark) survives, stable
//    across two dumps.

func init() { registry["C10"] = runC10 }

type c10Case struct {
	Kind     string `json:"cache"`
	Writers  int    `json:"writers"`
	Readers  int    `json:"readers"`
	Stall    bool   `json:"maintenance_stalled_until_queue_full"`
	CloseAt  int    `json:"close_after_ops"`
	WaitToo  bool   `json:"a_client_calls_wait_concurrently"`
	DelHeavy bool   `json:"writers_alternate_set_and_delete_of_resident_keys"`
	// the stall lasts for more than a maintenance period before Close is called, so that a timer tick is already
	// waiting for the policy lock when the cache is closed
	LongStall bool `json:"stalled_for_more_than_a_tick_before_close,omitempty"`
	// Viewers: goroutines cycling through Range / Len / EstimatedSize / Stats / SaveCache (the calls that take the
	// policy lock, all shard locks, or both) while Close lands
	Viewers int `json:"viewers_range_len_size_stats_save,omitempty"`
}

func maxGoroutineID() int64 {
	var m int64
	for _, g := range parseGoroutines(allStacks()) {
		if g.ID > m {
			m = g.ID
		}
	}
	return m
}

// c10ClientFrames: cache functions in which a client can be parked on a channel
var c10ClientFrames = []string{").sendEvent", ").policyNewEntry", ").policyUpdateEntry", ").Delete", ").DeleteWithSecondary", ").Wait", ").Set", ").setInternal", ").toPolicy"}

func c10Scenario(r *Run, idx int, cs c10Case) {
	rng := r.Rng(int64(10000 + idx))
	hiWater := maxGoroutineID()
	lg := &noteLog[int, int64]{}
	var loads atomic.Int64
	a, err := newAnyCache(cs.Kind, anyOpts{MaxSize: 64, Listener: lg.listener(), KeepLog: false,
		Loader: func(ctx context.Context, k int) (theine.Loaded[int64], error) {
			loads.Add(1)
			return theine.Loaded[int64]{Value: int64(k) | 1<<40, Cost: 1}, nil
		}})
	if err != nil {
		r.Broken("build: %v", err)
		return
	}
	st := a.store()
	wit := map[string]any{"case": cs, "scenario": idx}
	fail := func(key, what string) {
		r.Violate(key, fmt.Sprintf("scenario %d (%s, %d writers, %d readers, stalled=%v): %s", idx, cs.Kind, cs.Writers, cs.Readers, cs.Stall, what), wit)
	}
	// a few resident keys to probe after Close
	for k := 0; k < 8; k++ {
		a.set(1000+k, int64(k), 1, 0)
	}
	a.wait()
	var gate chan struct{}
	if cs.Stall {
		gate = make(chan struct{})
		lg.mu.Lock()
		lg.gate = gate
		lg.mu.Unlock()
		n0 := len(lg.snapshot())
		_ = a.del(1000) // its REMOVED notification blocks the maintenance goroutine under the policy lock
		for len(lg.snapshot()) == n0 {
			time.Sleep(100 * time.Microsecond)
		}
	}
	// ---- clients
	var ops, wops, vops atomic.Int64
	var closeCalled atomic.Bool
	var wg sync.WaitGroup
	stopClients := make(chan struct{})
	for w := 0; w < cs.Writers; w++ {
		wr := rand.New(rand.NewSource(rng.Int63()))
		wg.Add(1)
		go func(w int) {
			defer wg.Done()
			for i := 0; ; i++ {
				select {
				case <-stopClients:
					return
				default:
				}
				k := w<<16 | wr.Intn(4096)
				if cs.DelHeavy {
					// every Delete hits a key this writer has just stored, so it sends its own event: the
					// callers parked on a full queue then include the Delete paths (plain and hybrid)
					a.set(k, int64(i), 1, 0)
					_ = a.del(k)
					ops.Add(2)
					wops.Add(2)
					continue
				}
				switch wr.Intn(10) {
				case 0:
					_ = a.del(k)
				case 1:
					a.set(k, int64(i), 1, time.Duration(1+wr.Intn(5))*time.Millisecond)
				default:
					a.set(k, int64(i), 1, 0)
				}
				ops.Add(1)
				wops.Add(1)
			}
		}(w)
	}
	for rd := 0; rd < cs.Readers; rd++ {
		wr := rand.New(rand.NewSource(rng.Int63()))
		wg.Add(1)
		go func(rd int) {
			defer wg.Done()
			for {
				select {
				case <-stopClients:
					return
				default:
				}
				_, _, _ = a.get(context.Background(), wr.Intn(cs.Writers+1)<<16|wr.Intn(4096))
				ops.Add(1)
			}
		}(rd)
	}
	for v := 0; v < cs.Viewers; v++ {
		wg.Add(1)
		go func(v int) {
			defer wg.Done()
			for i := v; ; i++ {
				select {
				case <-stopClients:
					return
				default:
				}
				switch x := i % 5; {
				case a.hybrid(): // the hybrid kinds expose none of the views: SaveCache only
					_ = a.save(0, io.Discard)
				case x == 0:
					a.rangeAll(func(int, int64) bool { return true })
				case x == 1:
					_ = a.length()
				case x == 2:
					_ = st.EstimatedSize()
				case x == 3:
					_ = st.Stats()
				default:
					_ = a.save(0, io.Discard)
				}
				ops.Add(1)
				vops.Add(1)
			}
		}(v)
	}
	if cs.WaitToo {
		wg.Add(1)
		go func() {
			defer wg.Done()
			for !closeCalled.Load() {
				a.wait()
				time.Sleep(50 * time.Microsecond)
			}
		}()
	}
	// ---- when to close
	if cs.Stall {
		// until the queue is full and the writers have stopped making progress (all parked on the send)
		last, same := int64(-1), 0
		for polls := 0; same < 5 && polls < 20000; polls++ {
			time.Sleep(time.Millisecond)
			if o := wops.Load(); o == last && st.VerifQueueLen() == st.VerifQueueCap() {
				same++
			} else {
				same, last = 0, o
			}
		}
		if same < 5 {
			r.Inconclusive(1) // the queue never filled; the scenario still runs, as an unstalled one
		}
		r.CountMax("max_writers_parked_on_full_queue_at_close", int64(cs.Writers))
		if cs.LongStall {
			time.Sleep(1300 * time.Millisecond)
			r.Count("scenarios_with_a_tick_pending_at_close", 1)
		}
	} else {
		// bounded: if the clients stop making progress for a minute the cache is closed anyway and the
		// goroutine check below says where they are
		lastOps, lastMove := int64(-1), time.Now()
		for ops.Load() < int64(cs.CloseAt) {
			time.Sleep(50 * time.Microsecond)
			if o := ops.Load(); o != lastOps {
				lastOps, lastMove = o, time.Now()
			} else if time.Since(lastMove) > time.Minute {
				r.Inconclusive(1)
				break
			}
		}
	}
	r.CountMax("max_queue_len_seen_at_close", int64(st.VerifQueueLen()))
	closeCalled.Store(true)
	closeDone := make(chan struct{})
	go func() { a.closeAPI(); close(closeDone) }()
	if cs.Stall {
		time.Sleep(500 * time.Microsecond) // Close is now waiting for the policy lock behind the stalled batch
		lg.mu.Lock()
		lg.gate = nil
		lg.mu.Unlock()
		close(gate)
	}
	closeReturned := false
	select {
	case <-closeDone:
		closeReturned = true
	case <-time.After(20 * time.Second):
	}
	time.Sleep(2 * time.Millisecond) // a little more traffic after Close
	close(stopClients)
	// a Wait issued after Close has returned
	waitAfterDone := make(chan struct{})
	go func() { a.wait(); close(waitAfterDone) }()

	// ---- termination
	allDone := make(chan struct{})
	go func() { wg.Wait(); <-waitAfterDone; close(allDone) }()
	terminated := false
	lockStreak, lockDeadlock := 0, false
	violationsBefore := r.NViolations()
	for evals := 0; evals < 100 && !terminated; evals++ {
		select {
		case <-allDone:
			terminated = true
			continue
		case <-time.After(20 * time.Millisecond):
		}
		gs, all := dumpPair(150 * time.Millisecond)
		if dumpBlind.Load() {
			r.Broken("C10: goroutine dumps cannot be parsed; hang verdicts are void")
			return
		}
		// clients parked on a lock inside the cache while nothing of the cache can move any more: every goroutine
		// with a frame of the cache is parked, unchanged, in both dumps (a goroutine that sleeps, runs or waits
		// for the network is alive and may yet release the lock); seen in three successive pairs of dumps
		{
			alive := 0
			lockStuck := map[string]int{}
			for id, g := range all {
				if id <= hiWater || !strings.Contains(g.Text, theineFrame) {
					continue
				}
				sg, stable := gs[id]
				onLock := strings.HasPrefix(g.State, "sync.") || g.State == "semacquire"
				if !stable || !(onLock || sg.State == "chan send" || sg.State == "chan receive" || sg.State == "select") {
					alive++
					continue
				}
				if onLock && strings.Contains(g.Text, "main.c10Scenario") {
					lockStuck[strings.TrimPrefix(g.topTheineFrame(), ").")+" ["+g.State+"]"]++
				}
			}
			if alive == 0 && len(lockStuck) > 0 {
				lockStreak++
			} else {
				lockStreak = 0
			}
			if lockStreak >= 3 {
				for where, n := range lockStuck {
					fail("call-never-returns/"+strings.Fields(where)[0]+"/parked-on-a-lock-nobody-will-release", fmt.Sprintf("%d client goroutine(s) parked on a lock inside the cache at %s, and every goroutine with a frame of the cache is parked, unchanged, in three successive pairs of dumps (nobody is left who could release it)", n, where))
				}
				lockDeadlock = true
				break
			}
		}
		ms := "absent"
		for _, g := range all { // from the whole second dump: a maintenance goroutine that is busy is still there
			if g.ID > hiWater && g.has(").maintenance(") && !g.has(".maintenance.func1") {
				ms = "present"
			}
		}
		if ms != "absent" {
			continue // maintenance still exists: the calls may yet complete
		}
		stuck := map[string]int{}
		for _, g := range gs {
			// parked in a channel operation (a select over a channel and the cancellation counts: the
			// repaired code waits that way; with maintenance gone and the cache closed it should not wait at all)
			if g.ID <= hiWater || !(g.State == "chan send" || g.State == "chan receive" || g.State == "select") {
				continue
			}
			top := g.topTheineFrame()
			for _, f := range c10ClientFrames {
				if strings.HasSuffix(top, f) {
					name := strings.TrimPrefix(f, ").")
					if name == "sendEvent" {
						for _, caller := range []string{"Wait", "policyNewEntry", "policyUpdateEntry", "DeleteWithSecondary", "Delete"} {
							if g.has(")." + caller + "(") {
								name = caller
								break
							}
						}
					}
					stuck[name+" ("+g.State+")"]++
					break
				}
			}
		}
		if len(stuck) > 0 {
			for where, n := range stuck {
				key := "call-never-returns/" + strings.Fields(where)[0] + "/maintenance-gone"
				if strings.HasPrefix(where, "Wait") {
					key = "call-never-returns/Wait/after-or-during-close"
				}
				fail(key, fmt.Sprintf("%d client goroutine(s) parked forever in %s: the maintenance goroutine, the only party that could complete the hand-shake, has exited (two dumps 150 ms apart)", n, where))
			}
			break
		}
	}
	_ = lockDeadlock
	if !terminated && r.NViolations() == violationsBefore {
		// the clients did not all come back within the ~20 s of this loop and neither predicate could say why
		// (somebody was still moving): no verdict
		select {
		case <-allDone:
			terminated = true
		default:
			r.Inconclusive(1)
		}
	}
	if !closeReturned {
		select {
		case <-closeDone:
			closeReturned = true
		default:
			fail("close-never-returns", "Close had not returned 20 s after the stalled batch was released")
		}
	}
	r.Count("client_ops_completed", ops.Load())
	if cs.Viewers > 0 {
		r.Count("scenarios_with_range_len_size_stats_save_in_flight_at_close", 1)
		r.Count("viewer_calls_completed", vops.Load())
	}

	// ---- finality (fresh probes after Close returned)
	if closeReturned {
		probe := func() {
			for k := 1001; k < 1008; k++ {
				if a.loading() {
					l0 := loads.Load()
					_, _, err := a.get(context.Background(), k)
					if !errors.Is(err, internal.ErrCacheClosed) {
						fail("loading-get-after-close-not-errclosed", fmt.Sprintf("loading Get(%d) after Close returned err=%v (loader ran %d times), want the cache-closed error", k, err, loads.Load()-l0))
						break
					}
				} else if v, ok, _ := a.get(context.Background(), k); ok {
					fail("get-hits-after-close", fmt.Sprintf("Get(%d) after Close returned value %d", k, v))
					break
				}
			}
			a.set(777777, 1, 1, 0)
			_ = a.del(1002)
			n := 0
			a.rangeAll(func(int, int64) bool { n++; return true })
			if l := a.length(); l != 0 || n != 0 {
				fail("set-has-effect-after-close", fmt.Sprintf("after Close and a further Set: Len=%d, Range visited %d entries (want 0)", l, n))
			}
			if !a.loading() {
				if _, ok, _ := a.get(context.Background(), 777777); ok {
					fail("set-has-effect-after-close", "a key Set after Close is readable")
				}
			}
		}
		pd := make(chan struct{})
		go func() { probe(); close(pd) }()
		select {
		case <-pd:
		case <-time.After(20 * time.Second):
			r.Inconclusive(1)
		}
	}

	// ---- calls that need the policy lock must return after Close as well: a second Close, the size view, a save
	if closeReturned && terminated {
		var cur atomic.Value
		cur.Store("")
		var probeID atomic.Int64
		lockCalls := make(chan struct{})
		go func() {
			probeID.Store(goid())
			for _, c := range []struct {
				name string
				f    func()
			}{{"EstimatedSize", func() { _ = a.store().EstimatedSize() }}, {"Stats", func() { _ = a.store().Stats() }}, {"SaveCache", func() { _ = a.save(0, io.Discard) }},
				{"Close-again", func() { a.closeAPI() }}, {"Len", func() { _ = a.length() }}} {
				cur.Store(c.name)
				c.f()
			}
			close(lockCalls)
		}()
		returned := false
		for evals := 0; evals < 100 && !returned; evals++ {
			select {
			case <-lockCalls:
				returned = true
				continue
			case <-time.After(20 * time.Millisecond):
			}
			gs, all := dumpPair(150 * time.Millisecond)
			select {
			case <-lockCalls:
				returned = true
				continue
			default:
			}
			g, stable := gs[probeID.Load()]
			if !stable || !(strings.HasPrefix(g.State, "sync.") || g.State == "semacquire") || g.topTheineFrame() == "" {
				continue
			}
			// parked on a lock inside the cache: is anybody left who could hold it?
			others := 0
			for id, o := range all {
				if id > hiWater && id != probeID.Load() && strings.Contains(o.Text, theineFrame) && !strings.Contains(o.Text, "main.c10Scenario") {
					others++
				}
			}
			if others == 0 {
				name := cur.Load().(string)
				fail("call-never-returns/"+name+"/after-close/lock-held-by-nobody", fmt.Sprintf("%s called after Close had returned is parked on a lock inside the cache (%s [%s]) in two dumps 150 ms apart, and no other goroutine with a frame of the cache exists that could release it", name, g.topTheineFrame(), g.State))
				break
			}
		}
		if returned {
			r.Count("post_close_lock_calls_returned", 1)
		}
	}

	// ---- leaks: goroutines this cache started must be gone
	var leak map[string]int
	for tries := 0; tries < 40; tries++ {
		leak = map[string]int{}
		gs := stableDump(50 * time.Millisecond)
		for _, g := range gs {
			if g.ID <= hiWater {
				continue
			}
			if strings.Contains(g.Text, "created by "+theineFrame) {
				leak[g.topTheineFrame()+" ["+g.State+"]"]++
			}
		}
		if len(leak) == 0 {
			break
		}
	}
	for where, n := range leak {
		key := "goroutine-leak/" + strings.Fields(where)[0]
		fail(key, fmt.Sprintf("%d background goroutine(s) started by the cache are still alive after Close returned and all clients finished: %s (stable across dumps for 2 s)", n, where))
	}
	r.Eval(1)
	bucket := func(n int) string {
		switch {
		case n == 0:
			return "0"
		case n <= 4:
			return "1-4"
		case n <= 32:
			return "5-32"
		}
		return ">32"
	}
	r.Distinct(fmt.Sprintf("%s/w%s/r%s/stall=%v/wait=%v/del=%v/viewers=%v", cs.Kind, bucket(cs.Writers), bucket(cs.Readers), cs.Stall, cs.WaitToo, cs.DelHeavy, cs.Viewers > 0))
	r.Sample(8, map[string]any{"case": cs, "ops_completed": ops.Load(), "close_returned": closeReturned, "all_calls_returned": terminated})
}

// c10MassOps: far more in-flight writes of ONE kind than the write queue holds when Close lands -
// 3000 goroutines, each issuing a single operation that sends exactly one event (a new key, an
// update of a resident key, or a Delete of a resident key), while maintenance is stalled in a
// removal listener. After cancellation the maintenance loop still drains a batch or two; only with
// thousands of parked senders do some remain for certain. Every one of them must return.
// c10ClosedStaysClosed: "Close is final" also against the bulk write. A snapshot saved before Close is loaded into
// the closed cache (whatever LoadCache answers); afterwards the cache must still behave as closed.
func c10ClosedStaysClosed(r *Run, idx int, kind string) {
	var loads atomic.Int64
	a, err := newAnyCache(kind, anyOpts{MaxSize: 500, Loader: func(ctx context.Context, k int) (theine.Loaded[int64], error) {
		loads.Add(1)
		return theine.Loaded[int64]{Value: int64(k), Cost: 1}, nil
	}})
	if err != nil {
		r.Broken("build: %v", err)
		return
	}
	for k := 0; k < 200; k++ {
		a.set(k, int64(k)+1, 1, time.Duration(k%2)*time.Hour)
	}
	a.wait()
	var buf bytes.Buffer
	if err := a.save(3, &buf); err != nil {
		r.Broken("save: %v", err)
		return
	}
	// hybrid kinds: the secondary store holds two keys the memory tier does not (a store that outlives the cache)
	if a.hybrid() {
		_ = a.sec.Set(9001, 19001, 1, 0)
		_ = a.sec.Set(9002, 19002, 1, 0)
	}
	a.closeAPI()
	if a.hybrid() {
		a.store().Close()
		// "Set and Delete have no effect" reaches as far as the secondary store: a Delete after Close must not
		// remove the key there, and a Set after Close (which stores nothing) must not invalidate the copy there
		_ = a.del(9001)
		a.set(9002, 29002, 1, 0)
		_, has1 := a.sec.peek(9001)
		rec2, has2 := a.sec.peek(9002)
		if !has1 {
			r.Violate("delete-has-effect-after-close/secondary-store/"+kind, fmt.Sprintf("%s cache: key 9001 lives in the secondary store only; Close returned, then Delete(9001): the key is gone from the secondary store", kind), map[string]any{"cache": kind})
		}
		if !has2 || rec2.Val != 19002 {
			r.Violate("set-has-effect-after-close/secondary-store/"+kind, fmt.Sprintf("%s cache: key 9002 lives in the secondary store only; Close returned, then Set(9002, 29002): the secondary store now holds (%v, present=%v), want the untouched 19002", kind, rec2.Val, has2), map[string]any{"cache": kind})
		}
		r.Count("post_close_writes_checked_against_the_secondary_store", 2)
	}
	lerr := a.load(3, &buf)
	fail := func(key, what string) {
		r.Violate(key+"/after-loadcache-into-the-closed-cache/"+kind, fmt.Sprintf("%s cache: 200 entries saved, Close returned, LoadCache of that snapshot returned %v; then %s", kind, lerr, what), map[string]any{"cache": kind, "loadcache_error": fmt.Sprint(lerr)})
	}
	hits, closedErrs := 0, 0
	for k := 0; k < 200; k++ {
		v, ok, err := a.get(context.Background(), k)
		if a.loading() {
			if errors.Is(err, internal.ErrCacheClosed) {
				closedErrs++
			} else if err == nil {
				hits++
			}
		} else if ok && v == int64(k)+1 {
			hits++
		}
	}
	n := 0
	a.rangeAll(func(int, int64) bool { n++; return true })
	if hits > 0 || n > 0 || a.length() > 0 {
		fail("get-hits-after-close", fmt.Sprintf("%d of 200 Gets returned a value, Range visited %d entries, Len=%d (want none)", hits, n, a.length()))
	} else if a.loading() && closedErrs != 200 {
		fail("loading-get-after-close-not-errclosed", fmt.Sprintf("only %d of 200 loading Gets failed with the cache-closed error", closedErrs))
	}
	r.Eval(1)
	r.Count("closed_then_loadcache_scenarios", 1)
	r.Distinct("closed-stays-closed/" + kind)
}

func c10MassOps(r *Run, idx int, kind, op string) {
	hiWater := maxGoroutineID()
	lg := &noteLog[int, int64]{}
	a, err := newAnyCache(kind, anyOpts{MaxSize: 16384, Listener: lg.listener()})
	if err != nil {
		r.Broken("build: %v", err)
		return
	}
	const N = 3000
	for k := 0; k < N+1; k++ {
		a.set(k, int64(k), 1, 0)
	}
	a.wait()
	gate := make(chan struct{})
	lg.mu.Lock()
	lg.gate = gate
	lg.mu.Unlock()
	n0 := len(lg.snapshot())
	_ = a.del(N) // its REMOVED notification blocks maintenance under the policy lock
	for len(lg.snapshot()) == n0 {
		time.Sleep(100 * time.Microsecond)
	}
	var wg sync.WaitGroup
	var returned atomic.Int64
	for i := 0; i < N; i++ {
		wg.Add(1)
		go func(i int) {
			defer wg.Done()
			defer returned.Add(1)
			switch op {
			case "new":
				a.set(100000+i, 1, 1, 0)
			case "update":
				a.set(i, -1, 2, 0)
			case "delete":
				_ = a.del(i)
			}
		}(i)
	}
	st := a.store()
	// until the queue is full and nobody makes progress any more
	for last, same := int64(-1), 0; same < 5; {
		time.Sleep(2 * time.Millisecond)
		if o := returned.Load(); o == last && st.VerifQueueLen() == st.VerifQueueCap() {
			same++
		} else {
			same, last = 0, o
		}
	}
	parked := int64(N) - returned.Load()
	r.CountMax("max_one_shot_senders_parked_at_close", parked)
	closeDone := make(chan struct{})
	go func() { a.store().Close(); close(closeDone) }()
	time.Sleep(500 * time.Microsecond)
	lg.mu.Lock()
	lg.gate = nil
	lg.mu.Unlock()
	close(gate)
	allDone := make(chan struct{})
	go func() { wg.Wait(); <-closeDone; close(allDone) }()
	wit := map[string]any{"kind": kind, "operation": op, "goroutines": N, "parked_when_close_was_called": parked}
	for evals := 0; evals < 100; evals++ {
		select {
		case <-allDone:
			evals = 1000
			continue
		case <-time.After(20 * time.Millisecond):
		}
		gs, all := dumpPair(150 * time.Millisecond)
		alive := false
		for _, g := range all {
			if g.ID > hiWater && g.has(").maintenance(") && !g.has(".maintenance.func1") {
				alive = true
			}
		}
		if alive {
			continue
		}
		stuck := 0
		where := ""
		for _, g := range gs {
			if g.ID <= hiWater || !(g.State == "chan send" || g.State == "select") {
				continue
			}
			top := g.topTheineFrame()
			for _, f := range c10ClientFrames {
				if strings.HasSuffix(top, f) {
					stuck++
					where = strings.TrimPrefix(top, "(*Store[...]).") + " [" + g.State + "]"
					break
				}
			}
		}
		if stuck > 0 {
			r.Violate("call-never-returns/one-shot-"+op+"/maintenance-gone", fmt.Sprintf("mass scenario %d (%s cache, %d goroutines each issuing one %s, %d parked on the full queue when Close was called): %d of them are parked forever in %s - the maintenance goroutine has exited (two dumps 150 ms apart)", idx, kind, N, op, parked, stuck, where), wit)
			break
		}
	}
	r.Eval(1)
	r.Count("mass_scenarios", 1)
	r.Distinct(fmt.Sprintf("mass/%s/%s", kind, op))
	if idx < 2 {
		r.Sample(10, wit)
	}
}

func runC10(r *Run) {
	r.Rule("case = one scenario: a cache of one of the four kinds, W writers + R readers (+ optionally a concurrent Wait caller), optionally with maintenance stalled until the write queue is full and all writers are parked on their send, Close at a chosen moment, then termination / finality / leak checks. Non-trivial = at least one operation in flight at Close (every scenario); distinct by (kind, writers bucket, readers bucket, stalled, concurrent Wait)")
	r.Assume("a hang is reported only from an observed deadlock state (client parked in a channel operation inside the cache, maintenance goroutine gone, two dumps apart), never from a deadline; the generous wall-clock guards only make a scenario inconclusive",
		"goroutines started by the cache are recognised by their creator frame and an id above the pre-build high-water mark")
	var cases []c10Case
	rng := r.Rng(3)
	for _, kind := range anyKinds {
		for _, w := range []int{1, 4, 32, 256} {
			for _, stall := range []bool{false, true} {
				cases = append(cases, c10Case{Kind: kind, Writers: w, Readers: []int{0, 2, 16}[rng.Intn(3)], Stall: stall, CloseAt: 200 + rng.Intn(20000), WaitToo: rng.Intn(3) == 0, Viewers: []int{0, 1, 3}[(w+len(cases))%3]})
				if w >= 32 {
					cases = append(cases, c10Case{Kind: kind, Writers: w, Readers: 0, Stall: stall, CloseAt: 200 + rng.Intn(20000), DelHeavy: true})
				}
			}
		}
		cases = append(cases, c10Case{Kind: kind, Writers: 0, Readers: 8, CloseAt: 5000})
		cases = append(cases, c10Case{Kind: kind, Writers: 4, Readers: 2, Stall: true, LongStall: true, WaitToo: kind == "plain"})
	}
	for ki, kind := range anyKinds {
		if ki%r.NShards == r.Shard {
			c10ClosedStaysClosed(r, ki, kind)
		}
	}
	mi := 0
	for _, kind := range anyKinds {
		for _, op := range []string{"new", "update", "delete"} {
			if mi%r.NShards == r.Shard {
				c10MassOps(r, mi, kind, op)
			}
			mi++
		}
	}
	reps := r.Pick(1, 12)
	for rep := 0; rep < reps; rep++ {
		for i, cs := range cases {
			if (i+rep)%r.NShards != r.Shard {
				continue
			}
			if rep > 0 {
				cs.CloseAt = 100 + rng.Intn(40000)
				cs.Readers = []int{0, 1, 8, 64}[rng.Intn(4)]
				cs.WaitToo = rng.Intn(2) == 0
				cs.Viewers = []int{0, 0, 1, 4}[rng.Intn(4)]
			}
			if cs.Writers == 0 && cs.Readers == 0 {
				cs.Readers = 8 // a scenario needs clients: with none, "close after CloseAt operations" never comes
			}
			c10Scenario(r, rep*1000+i, cs)
		}
	}
}
