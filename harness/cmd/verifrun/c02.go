package main

import (
	"bytes"
	"context"
	"fmt"
	"math/rand"
	"runtime"
	"strings"
	"sync"
	"sync/atomic"
	"time"

	theine "github.com/Yiling-J/theine-go"
	"github.com/Yiling-J/theine-go/internal"
)

// C02 — resident cost within MaxSize once writes drain, nothing untracked.
//
// (a) concurrent stress with random delays at hook H1, barrier, snapshot.
// (b) phase scheduler: each scripted op runs in its own goroutine and is
//     parked (H1) after its synchronous map phase; the event sends are then
//     released in a chosen order with ticks / time jumps / read bursts between.
// (c) expiry path parked at its deadline re-check (H2) while the TTL is
//     extended through the API.
// (d) in-flight bound with maintenance stalled.

func init() { registry["C02"] = runC02 }

type c02Op struct {
	Kind byte // 'S' set, 'T' set with ttl, 'D' delete
	Key  int
	Cost int64
	TTL  time.Duration
}

func (o c02Op) String() string {
	switch o.Kind {
	case 'S':
		return fmt.Sprintf("Set(k%d,c%d)", o.Key, o.Cost)
	case 'T':
		return fmt.Sprintf("SetTTL(k%d,c%d,%v)", o.Key, o.Cost, o.TTL)
	case 'D':
		return fmt.Sprintf("Delete(k%d)", o.Key)
	}
	return "?"
}

func c02Alphabet(maxSize int64) []c02Op {
	return []c02Op{
		{'S', 1, 1, 0},
		{'S', 1, maxSize, 0},
		{'D', 1, 0, 0},
		{'S', 2, maxSize, 0},
		{'T', 1, 1, time.Second},
	}
}

type c02Script struct {
	MaxSize int64
	Ops     []c02Op
	Order   []int // release order (indices into Ops)
	Between int   // position (before which release) of the extra action
	Action  string
}

func (s c02Script) String() string {
	var ops []string
	for _, o := range s.Ops {
		ops = append(ops, o.String())
	}
	return fmt.Sprintf("M=%d ops=[%s] release=%v %s@%d", s.MaxSize, strings.Join(ops, " "), s.Order, s.Action, s.Between)
}

// runScript executes one phase-scheduler script; returns issues found, whether
// some event overtook another client's event, and the notes seen.
func c02RunScript(sc c02Script, withLedger bool) (issues []invIssue, overtook bool, notes []note[int, int64], err error) {
	nl := &noteLog[int, int64]{}
	c, e := theine.NewBuilder[int, int64](sc.MaxSize).RemovalListener(nl.listener()).Build()
	if e != nil {
		return nil, false, nil, e
	}
	defer c.Close()
	st := c.VerifStore()
	pk := newParker(internal.VPBeforeEvent)
	defer pk.close()
	type running struct {
		c      *parked
		done   chan struct{}
		parked bool
	}
	runs := make([]*running, len(sc.Ops))
	// model of the synchronous map phases, in script order
	type mval struct {
		val  int64
		cost int64
		ttl  bool
	}
	model := map[int]mval{}
	written := map[int64]int{} // value -> key
	for i, op := range sc.Ops {
		op := op
		val := int64(i+1)<<20 | int64(op.Key)
		pc, done := pk.goParked(op.String(), func() {
			switch op.Kind {
			case 'S':
				c.Set(op.Key, val, op.Cost)
			case 'T':
				c.SetWithTTL(op.Key, val, op.Cost, op.TTL)
			case 'D':
				c.Delete(op.Key)
			}
		})
		_, isParked, werr := waitParkedOrDone(pc, done)
		if werr != nil {
			return nil, false, nil, werr
		}
		runs[i] = &running{pc, done, isParked}
		switch op.Kind {
		case 'S':
			m := model[op.Key]
			model[op.Key] = mval{val, op.Cost, m.ttl}
			written[val] = op.Key
		case 'T':
			model[op.Key] = mval{val, op.Cost, true}
			written[val] = op.Key
		case 'D':
			delete(model, op.Key)
		}
	}
	// release the event sends in the requested order
	for pos, idx := range sc.Order {
		if pos == sc.Between {
			switch sc.Action {
			case "tick":
				st.VerifTick()
			case "jump+tick":
				st.VerifShiftClock(3*time.Second, true)
				st.VerifTick()
			case "reads":
				for n := 0; n < 1200; n++ {
					c.Get(1 + n%2)
				}
			}
		}
		ru := runs[idx]
		if !ru.parked {
			continue
		}
		if idx != pos {
			overtook = true
		}
		ru.c.release <- struct{}{}
		select {
		case <-ru.done:
		case <-time.After(60 * time.Second):
			return nil, false, nil, fmt.Errorf("released op %v did not return", sc.Ops[idx])
		}
		c.Wait() // the event is applied before the next one is released
	}
	if sc.Between >= len(sc.Order) {
		if sc.Action == "tick" || sc.Action == "jump+tick" {
			if sc.Action == "jump+tick" {
				st.VerifShiftClock(3*time.Second, true)
			}
			st.VerifTick()
		}
	}
	c.Wait()
	sn := st.VerifSnapshot()
	issues = checkQuiescent(sn, c.EstimatedSize(), true)
	// resident entries must be the model's final values with their final cost
	for _, e := range sn.Map {
		m, ok := model[e.Key]
		if !ok {
			issues = append(issues, invIssue{"resident-after-delete", fmt.Sprintf("key %d is resident (value %#x) although its last map operation was a Delete", e.Key, e.Value)})
			continue
		}
		if m.val != e.Value {
			issues = append(issues, invIssue{"resident-stale-value", fmt.Sprintf("key %d holds %#x, last written %#x", e.Key, e.Value, m.val)})
		}
		if m.cost != e.Weight {
			issues = append(issues, invIssue{"resident-stale-cost", fmt.Sprintf("key %d has cost %d, last written cost %d", e.Key, e.Weight, m.cost)})
		}
	}
	notes = nl.snapshot()
	if withLedger {
		issues = append(issues, c05ScriptLedger(sc, sn, notes, written)...)
	}
	return issues, overtook, notes, nil
}

func perms(n int) [][]int {
	var out [][]int
	var rec func(cur []int, used uint)
	rec = func(cur []int, used uint) {
		if len(cur) == n {
			out = append(out, append([]int(nil), cur...))
			return
		}
		for i := 0; i < n; i++ {
			if used&(1<<uint(i)) == 0 {
				rec(append(cur, i), used|1<<uint(i))
			}
		}
	}
	rec(nil, 0)
	return out
}

// c02Scripts enumerates (thorough) or samples (quick) phase-scheduler scripts
// for this shard.
func c02Scripts(r *Run, rng *rand.Rand) []c02Script {
	var out []c02Script
	actions := []string{"none", "tick", "jump+tick", "reads"}
	sizes := []int64{1, 2, 5}
	if r.Thorough() {
		// all 4-op scripts over the 5-op alphabet x all release orders x 3 action placements (PRNG kind)
		n := 0
		p4 := perms(4)
		for _, M := range sizes {
			alpha := c02Alphabet(M)
			for code := 0; code < 625; code++ {
				ops := []c02Op{alpha[code%5], alpha[code/5%5], alpha[code/25%5], alpha[code/125%5]}
				for _, order := range p4 {
					for place := 0; place < 3; place++ {
						if n%r.NShards == r.Shard {
							out = append(out, c02Script{M, ops, order, 1 + place, actions[1+rng.Intn(3)]})
						}
						n++
					}
				}
			}
		}
		return out
	}
	total := 480
	for n := 0; n < total; n++ {
		M := sizes[rng.Intn(len(sizes))]
		alpha := c02Alphabet(M)
		k := 3 + rng.Intn(3)
		ops := make([]c02Op, k)
		for i := range ops {
			ops[i] = alpha[rng.Intn(len(alpha))]
		}
		order := rng.Perm(k)
		sc := c02Script{M, ops, order, rng.Intn(k + 1), actions[rng.Intn(len(actions))]}
		if n%r.NShards == r.Shard {
			out = append(out, sc)
		}
	}
	return out
}

func c02Phase(r *Run, prop string, withLedger bool) {
	rng := r.Rng(101)
	scripts := c02Scripts(r, rng)
	for _, sc := range scripts {
		issues, overtook, notes, err := c02RunScript(sc, withLedger)
		if err != nil {
			r.Inconclusive(1)
			r.Broken("phase scheduler: %v (%s)", err, sc)
			return
		}
		r.Eval(1)
		r.Count("phase_scripts", 1)
		r.Count("phase_notifications_seen", int64(len(notes)))
		if overtook {
			r.Distinct("phase/" + sc.String())
		}
		r.Sample(3, map[string]any{"phase_script": sc.String(), "overtook": overtook, "notifications": len(notes)})
		for _, is := range issues {
			r.Violate(is.Key, fmt.Sprintf("phase script %s: %s", sc, is.What), map[string]any{"script": sc, "script_text": sc.String(), "notes": fmt.Sprint(notes)})
		}
	}
}

// ---------------------------------------------------------------- (c) H2

// c02ExpireRecheck parks the expiry path just before it re-checks the deadline,
// extends the TTL through the API, resumes, then changes the cost / deletes.
func c02ExpireRecheck(r *Run, variant int) { expireRecheckScenario(r, variant, "C02") }

// expireRecheckScenario serves C02 (accounting after the race) and C04 (the renewed entry must still be reclaimed
// within a tick of its new deadline): each property's run reports only its own oracle.
func expireRecheckScenario(r *Run, variant int, prop string) {
	nl := &noteLog[int, int64]{}
	c, err := theine.NewBuilder[int, int64](100).RemovalListener(nl.listener()).Build()
	if err != nil {
		r.Broken("build: %v", err)
		return
	}
	defer c.Close()
	st := c.VerifStore()
	c.SetWithTTL(1, 100, 1, 2*time.Second)
	c.Set(2, 200, 1)
	c.Wait()
	st.VerifShiftClock(5*time.Second, true)
	pk := newParker(internal.VPExpireRecheck)
	defer pk.close()
	pc, done := pk.goParked("tick", func() { st.VerifTick() })
	_, isParked, werr := waitParkedOrDone(pc, done)
	if werr != nil || !isParked {
		// the real ticker may have reclaimed the entry first; not an observation of this window
		r.Inconclusive(1)
		r.Count("h2_window_not_reached", 1)
		if isParked {
			pc.release <- struct{}{}
		}
		return
	}
	// inside the window: the entry has been judged expired by the wheel; extend its life
	c.SetWithTTL(1, 101, 1, time.Hour)
	pc.release <- struct{}{}
	<-done
	pk.close()
	c.Wait()
	desc := "expiry parked at re-check, TTL extended to 1h through the API"
	check := func(stage string) bool {
		sn := st.VerifSnapshot()
		issues := checkQuiescent(sn, c.EstimatedSize(), true)
		if prop != "C02" {
			return len(issues) == 0
		}
		for _, is := range issues {
			r.Violate(is.Key+"/after-ttl-extension-raced-expiry", fmt.Sprintf("%s; %s: %s", desc, stage, is.What),
				map[string]any{"stage": stage, "variant": variant, "snapshot": snapSummary(sn), "notes": fmt.Sprint(nl.snapshot())})
		}
		return len(issues) == 0
	}
	if v, ok := c.Get(1); !ok || v != 101 {
		// a miss is legal for C02 (C01/C06 judge visibility); just record
		r.Count("h2_extended_value_not_readable", 1)
	}
	ok := check("after resume")
	switch variant % 3 {
	case 0:
		c.Set(1, 102, 7)
		c.Wait()
		ok = check("after cost change 1->7") && ok
	case 1:
		c.Delete(1)
		c.Wait()
		ok = check("after Delete") && ok
	case 2:
		st.VerifShiftClock(2*time.Hour, true)
		st.VerifTick()
		c.Wait()
		ok = check("after the extended deadline passed and a tick ran") && ok
		if _, hit := c.Get(1); hit {
			r.Count("h2_still_served_after_extended_deadline", 1)
		}
		sn := st.VerifSnapshot()
		for _, e := range sn.Map {
			if e.Key == 1 {
				r.Violate("never-reclaimed/after-ttl-extension-raced-expiry", desc+"; 2 h later (tick run) the entry is still resident: it was taken off the timer wheel and never re-scheduled",
					map[string]any{"variant": variant, "snapshot": snapSummary(sn)})
			}
		}
	}
	r.Eval(1)
	r.Count("h2_window_reached", 1)
	r.Distinct(fmt.Sprintf("h2/variant%d", variant%3))
	_ = ok
}

// c02ExpireRecheckNew: the same window on the insert path. The NEW event of an
// entry whose (tiny) TTL has already passed is applied by the maintenance
// goroutine, which parks at the re-check; the TTL is extended meanwhile.
func c02ExpireRecheckNew(r *Run, variant int) {
	nl := &noteLog[int, int64]{}
	c, err := theine.NewBuilder[int, int64](100).RemovalListener(nl.listener()).Build()
	if err != nil {
		r.Broken("build: %v", err)
		return
	}
	defer c.Close()
	st := c.VerifStore()
	c.Set(2, 200, 1)
	c.Wait()
	pk := newParker(internal.VPExpireRecheck)
	defer pk.close()
	anyc := pk.parkAnyone()
	st.VerifPolicyLock()
	c.SetWithTTL(1, 100, 1, time.Millisecond)
	st.VerifShiftClock(time.Second, false)
	st.VerifPolicyUnlock()
	select {
	case <-anyc.arrived:
	case <-time.After(20 * time.Second):
		r.Inconclusive(1)
		r.Count("h2new_window_not_reached", 1)
		return
	}
	c.SetWithTTL(1, 101, 1, time.Hour)
	pk.parkNoone()
	anyc.release <- struct{}{}
	pk.close()
	c.Wait()
	sn := st.VerifSnapshot()
	for _, is := range checkQuiescent(sn, c.EstimatedSize(), true) {
		r.Violate(is.Key+"/after-ttl-extension-raced-expiry", "insert event of an already-expired entry parked at the expiry re-check, TTL extended to 1h through the API; after resume: "+is.What,
			map[string]any{"variant": variant, "snapshot": snapSummary(sn), "notes": fmt.Sprint(nl.snapshot())})
	}
	if variant%2 == 1 {
		c.Set(1, 102, 5)
		c.Wait()
		sn = st.VerifSnapshot()
		for _, is := range checkQuiescent(sn, c.EstimatedSize(), true) {
			r.Violate(is.Key+"/after-ttl-extension-raced-expiry", "insert-path re-check window, then cost change 1->5: "+is.What, map[string]any{"variant": variant, "snapshot": snapSummary(sn)})
		}
	}
	r.Eval(1)
	r.Count("h2new_window_reached", 1)
	r.Distinct(fmt.Sprintf("h2new/variant%d", variant%2))
}

// ---------------------------------------------------------------- (a) stress

func c02Stress(r *Run, round int) {
	rng := r.Rng(int64(5000 + round))
	sizes := []int64{1, 2, 5, 16, 100, 1000}
	M := sizes[rng.Intn(len(sizes))]
	nl := &noteLog[int, int64]{}
	c, err := theine.NewBuilder[int, int64](M).RemovalListener(nl.listener()).Build()
	if err != nil {
		r.Broken("build: %v", err)
		return
	}
	defer c.Close()
	st := c.VerifStore()
	c02DebugStore = st
	nw := 2 + rng.Intn(7)
	nkeys := 2 + rng.Intn(int(M)*2+6)
	opsPer := 300 + rng.Intn(1500)
	phases := 3
	delay := rng.Intn(3) // 0 none, 1 gosched, 2 spin
	var hookHits atomic.Int64
	if delay > 0 {
		internal.VerifSetHook(func(id int) {
			if id != internal.VPBeforeEvent {
				return
			}
			n := hookHits.Add(1)
			if n%3 == 0 {
				return
			}
			if delay == 1 {
				runtime.Gosched()
			} else {
				spin(int(n % 7))
			}
		})
		defer internal.VerifSetHook(nil)
	}
	var opsDone, concurrentWaits atomic.Int64
	for ph := 0; ph < phases; ph++ {
		var wg sync.WaitGroup
		for w := 0; w < nw; w++ {
			wg.Add(1)
			wr := rand.New(rand.NewSource(rng.Int63()))
			go func(w int) {
				defer wg.Done()
				for i := 0; i < opsPer; i++ {
					k := wr.Intn(nkeys)
					cost := int64(1)
					if wr.Intn(3) == 0 {
						cost = 1 + wr.Int63n(M)
					}
					v := int64(w)<<40 | int64(ph)<<32 | int64(i)
					switch x := wr.Intn(100); {
					case x < 45:
						c.Set(k, v, cost)
					case x < 60:
						c.SetWithTTL(k, v, cost, time.Duration(1+wr.Intn(4000))*time.Millisecond)
					case x < 80:
						c.Delete(k)
					default:
						c.Get(k)
					}
					opsDone.Add(1)
				}
			}(w)
		}
		// in two of three rounds one more goroutine calls Wait again and again while the writers run: its markers
		// travel in the same batches as their events (whatever shares a batch with a marker must still be applied)
		waiterStop := make(chan struct{})
		waiterDone := make(chan struct{})
		if round%3 != 0 {
			go func() {
				defer close(waiterDone)
				for {
					select {
					case <-waiterStop:
						return
					default:
					}
					c.Wait()
					concurrentWaits.Add(1)
					runtime.Gosched()
				}
			}()
		} else {
			close(waiterDone)
		}
		// Wait for the writers, but not blindly: if they stop making progress because the maintenance
		// goroutine is spinning inside the policy while holding its lock (two dumps apart), that is a
		// violation of its own (writes can never drain again), reported with the policy's sizes.
		phaseDone := make(chan struct{})
		go func() { wg.Wait(); close(phaseDone) }()
		stuck := false
		for last, idle := int64(-1), 0; !stuck; {
			select {
			case <-phaseDone:
			case <-time.After(500 * time.Millisecond):
				if o := opsDone.Load(); o != last {
					last, idle = o, 0
					continue
				}
				if idle++; idle < 10 {
					continue
				}
				gs := stableDump(300 * time.Millisecond)
				for _, g := range gs {
					if (g.State == "runnable" || g.State == "running") && g.has(").drainWrite(") {
						peek := st.VerifPolicyPeekUnlocked()
						r.Violate("maintenance-does-not-terminate/"+g.topTheineFrame(),
							fmt.Sprintf("stress round %d (MaxSize %d, %d writers): no write has completed for 5 s; the maintenance goroutine is running inside %s with the policy lock held in two dumps 300 ms apart; policy sizes read without the lock: %v", round, M, nw, g.topTheineFrame(), peek),
							map[string]any{"round": round, "maxsize": M, "writers": nw, "keys": nkeys, "policy": peek})
						stuck = true
					}
				}
				if !stuck {
					idle = 0
				}
				continue
			}
			break
		}
		close(waiterStop)
		if stuck {
			r.Eval(1)
			return // the cache is dead; its goroutines are left behind
		}
		<-waiterDone
		c.Wait()
		if ph == 1 {
			// jump across the short deadlines and run the tick body
			st.VerifShiftClock(5*time.Second, true)
			st.VerifTick()
			c.Wait()
		}
		sn := st.VerifSnapshot()
		issues := checkQuiescent(sn, c.EstimatedSize(), true)
		for _, is := range issues {
			r.Violate(is.Key, fmt.Sprintf("stress round %d (MaxSize %d, %d writers, %d keys) barrier %d: %s", round, M, nw, nkeys, ph, is.What),
				map[string]any{"round": round, "maxsize": M, "writers": nw, "keys": nkeys, "phase": ph, "snapshot": snapSummary(sn)})
		}
		r.Count("stress_barriers", 1)
		r.Count("stress_resident_at_barriers", int64(len(sn.Map)))
	}
	r.Eval(1)
	r.Count("stress_ops", opsDone.Load())
	r.Count("stress_h1_delays", hookHits.Load())
	r.Count("stress_waits_concurrent_with_writers", concurrentWaits.Load())
	if len(nl.snapshot()) > 0 {
		r.Distinct(fmt.Sprintf("stress/M%d/w%d/k%d/d%d", M, nw, nkeys, delay))
	}
}

// ---------------------------------------------------------------- (e) cost raise on a hot cache

// c02HotCostRaise: the cache is full and most of it has been read often enough
// to sit in the protected region (confirmed from the snapshot); then one
// resident key's cost is raised by more than window + probation can absorb, so
// eviction has to reach into the protected region. Quiescent invariants after
// the drain, in particular resident cost <= MaxSize.
func c02HotCostRaise(r *Run, variant int) {
	rng := r.Rng(int64(7000 + variant))
	M := []int64{20, 100, 500}[variant%3]
	c, err := theine.NewBuilder[int, int64](M).Build()
	if err != nil {
		r.Broken("build: %v", err)
		return
	}
	defer c.Close()
	st := c.VerifStore()
	n := int(M)
	for k := 0; k < n; k++ {
		c.Set(k, int64(k), 1)
	}
	c.Wait()
	// enough reads for every stripe of the lossy buffer to deliver several batches
	for rep := 0; rep < 6000/n+40; rep++ {
		for k := 0; k < n; k++ {
			c.Get(k)
		}
	}
	c.Set(n+1, 1, 1) // a write lets the policy settle region overflow
	c.Wait()
	before := st.VerifSnapshot()
	if len(before.Protected.Entries)*2 < len(before.Map) {
		r.Inconclusive(1) // the reads did not make the cache hot enough
		return
	}
	// raise the cost of a protected key by more than window + probation hold
	target := before.Protected.Entries[rng.Intn(len(before.Protected.Entries))].Key
	spare := before.Window.Len + before.Probation.Len
	raiseTo := spare + 2 + rng.Int63n(M-spare-2)
	if raiseTo > M {
		raiseTo = M
	}
	ok := c.Set(target, -1, raiseTo)
	c.Wait()
	sn := st.VerifSnapshot()
	for _, is := range checkQuiescent(sn, c.EstimatedSize(), true) {
		key := is.Key
		if key == "resident-cost-over-maxsize" || key == "policy-total-over-maxsize" {
			key += "/after-cost-raise-on-hot-cache"
		}
		r.Violate(key, fmt.Sprintf("hot cache (MaxSize %d, %d of %d entries protected), cost of key %d raised from 1 to %d (window+probation held %d), Set returned %v: %s", M, len(before.Protected.Entries), len(before.Map), target, raiseTo, spare, ok, is.What),
			map[string]any{"maxsize": M, "raised_to": raiseTo, "before": snapSummary(before), "after": snapSummary(sn)})
	}
	r.Eval(1)
	r.Count("hot_cost_raise_cases", 1)
	r.Count("hot_cost_raise_evicted_from_protected", int64(len(before.Protected.Entries)-len(sn.Protected.Entries)))
	r.Distinct(fmt.Sprintf("hot-cost-raise/M%d/to%d", M, raiseTo*8/M))
}

// ---------------------------------------------------------------- (d) in flight

func c02InFlight(r *Run, variant int) {
	rng := r.Rng(int64(9000 + variant))
	c, err := theine.NewBuilder[int, int64](1 << 30).Build()
	if err != nil {
		r.Broken("build: %v", err)
		return
	}
	defer c.Close()
	st := c.VerifStore()
	K := []int{1, 2, 8, 32, 100}[variant%5]
	per := (st.VerifQueueCap()+internal.WriteBufferSize)/K + 200 + rng.Intn(200)
	st.VerifPolicyLock()
	var wg sync.WaitGroup
	var sets atomic.Int64
	for w := 0; w < K; w++ {
		wg.Add(1)
		go func(w int) {
			defer wg.Done()
			for i := 0; i < per; i++ {
				c.Set(w*1000000+i, int64(i), 1)
				sets.Add(1)
			}
		}(w)
	}
	// wait until nothing moves any more: every writer is parked on the full queue
	stable, last := 0, int64(-1)
	for i := 0; i < 2000 && stable < 6; i++ {
		time.Sleep(10 * time.Millisecond)
		n := sets.Load()
		if n == last && st.VerifQueueLen() == st.VerifQueueCap() {
			stable++
		} else {
			stable = 0
		}
		last = n
	}
	if stable < 6 {
		st.VerifPolicyUnlock()
		wg.Wait()
		r.Inconclusive(1)
		r.Count("inflight_not_stalled", 1)
		return
	}
	sn := st.VerifSnapshotLocked()
	tracked := len(sn.Window.Entries) + len(sn.Probation.Entries) + len(sn.Protected.Entries)
	resident := len(sn.Map)
	bound := st.VerifQueueCap() + internal.WriteBufferSize + K
	if resident-tracked > bound {
		r.Violate("unaccounted-entries-exceed-bound", fmt.Sprintf("with maintenance stalled and %d writers parked, %d resident entries are not yet accounted for; bound = queue %d + batch %d + writers %d = %d",
			K, resident-tracked, st.VerifQueueCap(), internal.WriteBufferSize, K, bound), map[string]any{"writers": K, "resident": resident, "tracked": tracked, "bound": bound})
	}
	r.CountMax("max_unaccounted_in_flight", int64(resident-tracked))
	r.Info("inflight_bound_formula", "queue capacity + maintenance batch + concurrent writers")
	st.VerifPolicyUnlock()
	wg.Wait()
	c.Wait()
	sn = st.VerifSnapshot()
	for _, is := range checkQuiescent(sn, c.EstimatedSize(), true) {
		r.Violate(is.Key, fmt.Sprintf("after releasing a stalled maintenance with %d writers: %s", K, is.What), map[string]any{"writers": K, "resident": len(sn.Map)})
	}
	if len(sn.Map) != K*per {
		r.Violate("entries-lost-under-backpressure", fmt.Sprintf("%d writers x %d distinct keys into an unbounded cache, %d resident", K, per, len(sn.Map)), map[string]any{"writers": K})
	}
	r.Eval(1)
	r.Distinct(fmt.Sprintf("inflight/K%d", K))
}

// c02StressDebug re-runs one stress round (args round=N reps=K) and, if its writers stop
// making progress, prints the policy's sizes read without the lock (diagnosis aid).
// c02ExpiredThenRewritten: an entry whose deadline has passed but which has not been reclaimed yet (no tick since)
// is written again - without a TTL (which clears the deadline) or with a new one - with another cost, then
// perhaps deleted or left to a tick. After every step the quiescent invariant must hold: the cost change of such a
// write is a policy event like any other.
func c02ExpiredThenRewritten(r *Run, variant int) { expiredThenRewritten(r, variant, "C02") }

// expiredThenRewritten also serves C16, which judges only what its statement names: EstimatedSize against the
// total cost of the resident entries.
func expiredThenRewritten(r *Run, variant int, prop string) {
	rng := r.Rng(int64(29000 + variant))
	M := []int64{10, 100}[variant%2]
	c, err := theine.NewBuilder[int, int64](M).Build()
	if err != nil {
		r.Broken("build: %v", err)
		return
	}
	defer c.Close()
	st := c.VerifStore()
	n := 3 + rng.Intn(4)
	for k := 0; k < n; k++ {
		c.SetWithTTL(k, int64(k), 1, time.Duration(1+rng.Intn(3))*time.Second)
	}
	c.Set(100, 100, 1)
	c.Wait()
	st.VerifShiftClock(10*time.Second, true)
	st.VerifRefreshClock()
	desc := fmt.Sprintf("MaxSize %d: %d entries stored with TTLs of 1-3 s and cost 1; 10 s of virtual time pass without a tick", M, n)
	check := func(stage string) {
		c.Wait()
		sn := st.VerifSnapshot()
		for _, is := range checkQuiescent(sn, c.EstimatedSize(), true) {
			if prop == "C16" {
				if is.Key != "estimated-size-mismatch" && is.Key != "resident-cost-vs-policy" {
					continue
				}
				is.Key = "estimatedsize!=sum-of-costs"
			}
			r.Violate(is.Key+"/after-rewriting-an-expired-unreclaimed-entry", fmt.Sprintf("%s; %s: %s", desc, stage, is.What), map[string]any{"variant": variant, "stage": stage, "snapshot": snapSummary(sn)})
		}
	}
	for k := 0; k < n; k++ {
		cost := int64(2 + rng.Intn(int(M)/2))
		if (variant/2+k)%2 == 0 {
			c.Set(k, int64(k)+1000, cost)
			check(fmt.Sprintf("after Set(%d, cost %d) without TTL", k, cost))
		} else {
			c.SetWithTTL(k, int64(k)+2000, cost, time.Hour)
			check(fmt.Sprintf("after SetWithTTL(%d, cost %d, 1h)", k, cost))
		}
	}
	switch variant % 3 {
	case 0:
		for k := 0; k < n; k++ {
			c.Delete(k)
		}
		check("after deleting the rewritten entries")
	case 1:
		st.VerifTick()
		check("after a tick")
	case 2:
		for k := 0; k < n; k++ {
			c.Set(k, int64(k)+3000, 1)
		}
		check("after setting the costs back to 1")
	}
	r.Eval(1)
	r.Count("expired_then_rewritten_scenarios", 1)
	r.Distinct(fmt.Sprintf("expired-then-rewritten/M%d/v%d", M, variant%6))
}

// c02LoadingPaths: entries that come in through the loader are accounted like any other: (a) loads whose caller's
// context is cancelled or past its deadline by the time the loader returns (the loader itself cancels it); (b) a
// reload that overwrites an entry whose deadline has passed but which has not been reclaimed yet; (c) loads of keys
// being Set / Deleted by others. Both builder routes to a loading cache, then the quiescent invariant.
func c02LoadingPaths(r *Run, idx int) {
	rng := r.Rng(int64(26000 + idx))
	M := []int64{20, 100}[idx%2]
	type ck struct{}
	var loadTTL atomic.Int64
	a, err := newAnyCache("loading", anyOpts{MaxSize: M, Loader: func(ctx context.Context, k int) (theine.Loaded[int64], error) {
		if cancel, ok := ctx.Value(ck{}).(context.CancelFunc); ok {
			cancel() // the caller gave up while the load was running; the load itself succeeds
		}
		return theine.Loaded[int64]{Value: int64(k) + 1, Cost: int64(1 + k%3), TTL: time.Duration(loadTTL.Load())}, nil
	}})
	if err != nil {
		r.Broken("build: %v", err)
		return
	}
	defer a.store().Close()
	st := a.store()
	desc := fmt.Sprintf("loading cache (%s), MaxSize %d", a.route, M)
	check := func(stage string) {
		a.wait()
		sn := st.VerifSnapshot()
		seen := map[string]bool{}
		for _, is := range checkQuiescent(sn, st.EstimatedSize(), true) {
			if !seen[is.Key] {
				seen[is.Key] = true
				r.Violate(is.Key+"/"+stage, fmt.Sprintf("%s; %s: %s", desc, stage, is.What), map[string]any{"round": idx, "stage": stage, "snapshot": snapSummary(sn)})
			}
		}
	}
	// (a) loads that outlive their caller's context
	n := int(M) * 3
	for k := 0; k < n; k++ {
		ctx, cancel := context.WithCancel(context.Background())
		if k%2 == 0 {
			ctx = context.WithValue(ctx, ck{}, cancel)
		}
		_, _, _ = a.get(ctx, k)
		cancel()
	}
	check("after-loads-whose-callers-context-ended-during-the-load")
	// (b) reload over an expired, unreclaimed entry
	loadTTL.Store(int64(2 * time.Second))
	base := 10_000
	m := 3 + rng.Intn(5)
	for k := 0; k < m; k++ {
		_, _, _ = a.get(context.Background(), base+k)
	}
	a.wait()
	st.VerifShiftClock(10*time.Second, true)
	st.VerifRefreshClock()
	loadTTL.Store(int64([]time.Duration{0, time.Hour}[rng.Intn(2)]))
	for k := 0; k < m; k++ {
		_, _, _ = a.get(context.Background(), base+k)
	}
	check("after-a-reload-over-an-expired-unreclaimed-entry")
	for k := 0; k < m; k++ {
		_ = a.del(base + k)
	}
	check("after-deleting-the-reloaded-entries")
	// (c) loads racing Sets and Deletes of the same keys
	loadTTL.Store(0)
	var wg sync.WaitGroup
	for g := 0; g < 4; g++ {
		wr := rand.New(rand.NewSource(rng.Int63()))
		wg.Add(1)
		go func(g int) {
			defer wg.Done()
			for i := 0; i < 500; i++ {
				k := 20_000 + wr.Intn(int(M))
				switch wr.Intn(4) {
				case 0:
					a.set(k, int64(i), int64(1+wr.Intn(3)), 0)
				case 1:
					_ = a.del(k)
				default:
					_, _, _ = a.get(context.Background(), k)
				}
			}
		}(g)
	}
	wg.Wait()
	check("after-loads-racing-sets-and-deletes")
	r.Eval(1)
	r.Count("loading_path_rounds", 1)
	r.Distinct(fmt.Sprintf("loading-paths/%s/M%d", a.route, M))
}

// c02Tiers: the accounting half of the property on hybrid / hybrid-loading caches whose secondary store is slow
// and fails: Sets, Deletes and Gets by a few goroutines, with bursts that overflow the bounded hand-off queue while
// the workers are held inside the store, and 0-30% of the store's calls (Set, Get and Delete alike) failing. At
// the end every write is applied and every hand-off processed (hooks H4), and the full quiescent invariant is
// checked: resident cost == EstimatedSize <= MaxSize, every resident entry tracked exactly once, nothing tracked
// that is not resident.
func c02Tiers(r *Run, idx int) {
	rng := r.Rng(int64(27000 + idx))
	kind := []string{"hybrid", "hybrid-loading"}[idx%2]
	M := []int64{5, 20, 60}[rng.Intn(3)]
	failPct := []int{0, 10, 30}[rng.Intn(3)]
	bar := &secBarrier{}
	internal.VerifSetHook(bar.hook)
	defer internal.VerifSetHook(nil)
	nl := &noteLog[int, int64]{}
	a, err := newAnyCache(kind, anyOpts{MaxSize: M, Workers: 1 + rng.Intn(3), Prob: []float32{1, 1, 0.5}[rng.Intn(3)], ProbSet: true, Listener: nl.listener()})
	if err != nil {
		r.Broken("build: %v", err)
		return
	}
	defer a.store().Close()
	st := a.store()
	frng := rand.New(rand.NewSource(rng.Int63()))
	var fmu sync.Mutex
	var failedDeletes atomic.Int64
	if failPct > 0 {
		a.sec.fail = func(op string, n int64) bool {
			fmu.Lock()
			defer fmu.Unlock()
			f := frng.Intn(100) < failPct
			if f && op == "delete" {
				failedDeletes.Add(1)
			}
			return f
		}
	}
	a.sec.slow.Store(rng.Intn(2) == 0)
	clients := 1 + rng.Intn(4)
	keys := int(M)*2 + rng.Intn(int(M)*4)
	var wg sync.WaitGroup
	for cl := 0; cl < clients; cl++ {
		wr := rand.New(rand.NewSource(rng.Int63()))
		wg.Add(1)
		go func(cl int) {
			defer wg.Done()
			for i := 0; i < 600; i++ {
				k := wr.Intn(keys)
				switch x := wr.Intn(100); {
				case x < 50:
					a.set(k, int64(cl)<<32|int64(i), int64(1+wr.Intn(3)), 0)
				case x < 75:
					_ = a.del(k)
				default:
					_, _, _ = a.get(context.Background(), k)
				}
			}
		}(cl)
	}
	wg.Wait()
	// a burst that overflows the hand-off queue while every worker is held inside the secondary store
	overflowed := false
	if rng.Intn(2) == 0 {
		gate := make(chan struct{})
		a.sec.mu.Lock()
		a.sec.setGate = gate
		a.sec.mu.Unlock()
		var blocked sync.Map // shards whose read lock a held worker keeps: a Set there would wait for the gate
		var stopBurst atomic.Bool
		done := make(chan struct{})
		go func() {
			defer close(done)
			for next := 1_000_000; next < 1_200_000 && !stopBurst.Load(); next++ {
				for _, sk := range a.sec.stalledKeys() {
					blocked.Store(st.VerifShardOf(sk), true)
				}
				if _, b := blocked.Load(st.VerifShardOf(next)); b {
					continue
				}
				a.set(next, int64(next), 1, 0)
			}
		}()
		// a held worker keeps its key's shard read-locked; a Set or an eviction on that shard - and with it the
		// maintenance goroutine - waits until the gate opens, so nothing here may wait for the policy
		for i := 0; i < 400 && !overflowed; i++ {
			for _, sk := range a.sec.stalledKeys() {
				blocked.Store(st.VerifShardOf(sk), true)
			}
			time.Sleep(5 * time.Millisecond)
			overflowed = st.VerifSecQueueLen() >= st.VerifSecQueueCap()
		}
		if overflowed {
			time.Sleep(20 * time.Millisecond) // a few more evictions find the queue full
		}
		stopBurst.Store(true)
		a.sec.mu.Lock()
		a.sec.setGate = nil
		a.sec.mu.Unlock()
		close(gate)
		<-done
	}
	if !bar.settle(a) {
		r.Inconclusive(1)
		return
	}
	// a last, sequential pass: store a few keys and delete them again (the store still failing), so that whatever
	// a Delete leaves behind is not washed out by later evictions before the snapshot
	delFailedLast := 0
	for i := 0; i < int(M)/2+1; i++ {
		k := 2_000_000 + i
		a.set(k, int64(i), 1, 0)
		a.wait()
		if err := a.del(k); err != nil {
			delFailedLast++
		}
	}
	if !bar.settle(a) {
		r.Inconclusive(1)
		return
	}
	sn := st.VerifSnapshot()
	issues := checkQuiescent(sn, st.EstimatedSize(), true)
	seen := map[string]bool{}
	for _, is := range issues {
		if seen[is.Key] {
			continue
		}
		seen[is.Key] = true
		key := is.Key + "/" + kind
		if delFailedLast > 0 && (is.Key == "ghost-in-policy" || is.Key == "ghost-in-wheel" || is.Key == "resident-cost-vs-policy" || is.Key == "estimated-size-mismatch") {
			key += "/after-a-delete-the-secondary-store-refused"
		}
		if overflowed {
			key += "/after-handoff-queue-overflow"
		}
		r.Violate(key, fmt.Sprintf("tiers round %d (%s, MaxSize %d, %d clients, secondary failing %d%% of calls incl. %d Deletes, hand-off queue overflowed: %v), after all writes were applied and all hand-offs processed: %s", idx, kind, M, clients, failPct, failedDeletes.Load(), overflowed, is.What),
			map[string]any{"round": idx, "cache": kind, "maxsize": M, "secondary_failure_percent": failPct, "overflowed": overflowed, "snapshot": snapSummary(sn)})
	}
	r.Eval(1)
	r.Count("tiers_rounds", 1)
	r.Count("tiers_failed_secondary_deletes", failedDeletes.Load())
	if overflowed {
		r.Count("tiers_rounds_with_handoff_queue_overflow", 1)
	}
	r.Distinct(fmt.Sprintf("tiers/%s/M%d/f%d/ov=%v", kind, M, failPct, overflowed))
}

// c02BulkLoad: LoadCache is a bulk write. A snapshot of one cache is loaded into another cache of the same or a
// different MaxSize that is already in use - holding entries under other keys and under some of the snapshot's
// own keys - and the quiescent invariant must hold afterwards (resident cost == EstimatedSize <= MaxSize, every
// resident entry tracked exactly once, nothing tracked that is not resident).
func c02BulkLoad(r *Run, idx int) { bulkLoad(r, idx, "C02") }

// bulkLoad also serves C16, which judges only the public views (Len, Range) against what is resident.
func bulkLoad(r *Run, idx int, prop string) {
	rng := r.Rng(int64(28000 + idx))
	kind := anyKinds[idx%len(anyKinds)]
	srcM := []int64{20, 100, 400}[rng.Intn(3)]
	dstM := []int64{srcM, srcM, srcM / 2, srcM * 2}[rng.Intn(4)]
	overlap := rng.Intn(3) // 0: disjoint keys, 1: some keys in common, 2: the same keys
	// hybrid kinds: an evicted entry stays in the map until a worker has handed it to the secondary store, so
	// "quiescent" also means every hand-off processed (hooks H4)
	bar := &secBarrier{}
	internal.VerifSetHook(bar.hook)
	defer internal.VerifSetHook(nil)
	quiesce := func(a *anyCache) bool {
		if a.hybrid() {
			return bar.settle(a)
		}
		a.wait()
		return true
	}
	src, err := newAnyCache(kind, anyOpts{MaxSize: srcM})
	if err != nil {
		r.Broken("build: %v", err)
		return
	}
	defer src.store().Close()
	for i := 0; i < int(srcM); i++ {
		src.set(i, int64(i)<<8|1, int64(1+rng.Intn(2)), time.Duration(rng.Intn(2))*time.Hour)
	}
	if !quiesce(src) {
		r.Inconclusive(1)
		return
	}
	var buf bytes.Buffer
	if err := src.save(1, &buf); err != nil {
		r.Broken("save: %v", err)
		return
	}
	dst, err := newAnyCache(kind, anyOpts{MaxSize: dstM})
	if err != nil {
		r.Broken("build: %v", err)
		return
	}
	defer dst.store().Close()
	base := map[int]int{0: 1 << 20, 1: int(srcM) / 2, 2: 0}[overlap]
	fill := int(dstM) * (1 + rng.Intn(3)) / 3
	// every third round the receiving cache's own writes are still queued when the load takes the policy lock: the
	// policy lock is held while the keys are stored (their insert events wait in the write queue), the load is
	// started, and only then is the lock let go
	pending := idx%3 == 2 && fill < dst.store().VerifQueueCap()
	if pending {
		dst.store().VerifPolicyLock()
	}
	for i := 0; i < fill; i++ {
		dst.set(base+i, int64(i)<<8|2, int64(1+rng.Intn(2)), time.Duration(rng.Intn(2))*time.Hour)
	}
	var lerr error
	if pending {
		done := make(chan struct{})
		go func() { lerr = dst.load(1, &buf); close(done) }()
		time.Sleep(2 * time.Millisecond) // the load is now waiting for the policy lock
		dst.store().VerifPolicyUnlock()
		<-done
		if q := dst.store().VerifQueueLen(); q > 0 {
			r.Count("bulk_loads_with_the_receiving_caches_own_insert_events_still_queued", 1)
		}
	} else {
		if !quiesce(dst) {
			r.Inconclusive(1)
			return
		}
		lerr = dst.load(1, &buf)
	}
	if lerr != nil {
		r.Broken("load: %v", lerr)
		return
	}
	if !quiesce(dst) {
		r.Inconclusive(1)
		return
	}
	st := dst.store()
	sn := st.VerifSnapshot()
	issues := checkQuiescent(sn, st.EstimatedSize(), true)
	seen := map[string]bool{}
	ov := []string{"disjoint-keys", "some-keys-in-common", "same-keys"}[overlap]
	if prop != "C02" {
		issues = nil
	}
	for _, is := range issues {
		if seen[is.Key] {
			continue
		}
		seen[is.Key] = true
		key := is.Key + "/after-loadcache-into-a-cache-in-use"
		if overlap > 0 {
			key += "/keys-in-common"
		}
		r.Violate(key, fmt.Sprintf("bulk-load round %d (%s): snapshot of a MaxSize-%d cache loaded into a MaxSize-%d cache holding %d entries (%s): %s", idx, kind, srcM, dstM, fill, ov, is.What),
			map[string]any{"round": idx, "cache": kind, "source_maxsize": srcM, "target_maxsize": dstM, "target_entries_before": fill, "keys": ov, "snapshot": snapSummary(sn)})
	}
	// the public views of the loaded cache agree with what is resident
	nRange := 0
	dst.rangeAll(func(int, int64) bool { nRange++; return true })
	if l := dst.length(); l != len(sn.Map) || nRange != len(sn.Map) {
		key := "len-or-range-differs-from-resident/after-loadcache-into-a-cache-in-use"
		if overlap > 0 {
			key += "/keys-in-common"
		}
		r.Violate(key, fmt.Sprintf("bulk-load round %d (%s): snapshot of a MaxSize-%d cache loaded into a MaxSize-%d cache holding %d entries (%s): %d entries are resident, Len() = %d, Range visited %d", idx, kind, srcM, dstM, fill, ov, len(sn.Map), l, nRange),
			map[string]any{"round": idx, "cache": kind, "keys": ov})
	}
	r.Eval(1)
	r.Count("bulk_load_rounds", 1)
	r.Distinct(fmt.Sprintf("bulkload/%s/%d->%d/%s/pending=%v", kind, srcM, dstM, ov, pending))
}

func c02StressDebug(r *Run) {
	round := mustAtoi(r.Args["round"], 2002)
	reps := mustAtoi(r.Args["reps"], 50)
	for i := 0; i < reps; i++ {
		done := make(chan struct{})
		go func() { c02Stress(r, round); close(done) }()
		select {
		case <-done:
		case <-time.After(20 * time.Second):
			fmt.Printf("rep %d: stress round %d stopped making progress\n", i, round)
			if c02DebugStore != nil {
				fmt.Printf("policy (read without lock): %v\n", c02DebugStore.VerifPolicyPeekUnlocked())
			}
			return
		}
	}
	fmt.Printf("%d repetitions of round %d completed\n", reps, round)
}

var c02DebugStore *internal.Store[int, int64]

func runC02(r *Run) {
	if r.Args["debug"] != "" {
		c02StressDebug(r)
		return
	}
	r.Rule("cases: phase-scheduler scripts (ops parked at H1 after their map phase, event sends released in a chosen order with tick / time-jump / read-burst placed between), H2 expiry-recheck scenarios, concurrent stress rounds with barriers, stalled-maintenance in-flight rounds. " +
		"Non-trivial = a script run in which at least one event overtook another client's event (distinct by script+release order+action placement), an H2 run that reached the re-check window, a stress round that produced removals, an in-flight round that parked all writers")
	r.Assume("entry pool off (the property claims exact accounting for the default configuration)",
		"in-flight bound uses queue capacity + the maintenance batch already taken + writers")
	// hook-using scenarios are serial within this process; the driver shards across processes
	c02Phase(r, "C02", false)
	nH2 := r.Pick(3, 12)
	for i := 0; i < nH2; i++ {
		c02ExpireRecheck(r, i+r.Shard)
		c02ExpireRecheckNew(r, i+r.Shard)
	}
	nStress := r.Pick(4, 120)
	for i := 0; i < nStress; i++ {
		c02Stress(r, r.Shard*1000+i)
	}
	nHot := r.Pick(3, 24)
	for i := 0; i < nHot; i++ {
		c02HotCostRaise(r, r.Shard*nHot+i)
	}
	nIF := r.Pick(1, 5)
	for i := 0; i < nIF; i++ {
		c02InFlight(r, r.Shard+i)
	}
	for i := 0; i < r.Pick(6, 60); i++ {
		c02ExpiredThenRewritten(r, r.Shard*6+i)
	}
	for i := 0; i < r.Pick(4, 40); i++ {
		c02LoadingPaths(r, r.Shard*4+i)
	}
	nT := r.Pick(6, 120)
	for i := 0; i < nT; i++ {
		c02Tiers(r, r.Shard*nT+i)
	}
	nB := r.Pick(12, 240)
	for i := 0; i < nB; i++ {
		c02BulkLoad(r, r.Shard*nB+i)
	}
}
