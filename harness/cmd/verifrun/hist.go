package main

import (
	"fmt"
	"sort"
	"time"

	"github.com/anishathalye/porcupine"
)

// History recording at the client boundary + the sequential map model used by
// C01 and C14, a reads-from-closed shrinker for illegal per-key histories and
// the cause-key classifier.

type opKind uint8

const (
	opSet      opKind = iota // Set/SetWithTTL that returned true
	opSetFalse               // Set/SetWithTTL that returned false (doorkeeper): nothing stored
	opDelete
	opGetHit  // Get returned (v, true)
	opGetMiss // Get returned (_, false) — always legal, key is absent afterwards
	opLoad    // loading Get whose call ran the loader and got v: a write of v
	opShared  // loading Get that returned v without running the loader: a read of v
	opRange   // one Range visit: a read of v
	opGetErr  // Get returned an error (hybrid): no information
)

var opNames = map[opKind]string{opSet: "Set", opSetFalse: "Set->false", opDelete: "Delete", opGetHit: "Get", opGetMiss: "Get->miss",
	opLoad: "Get(loaded)", opShared: "Get(shared-load/hit)", opRange: "Range-visit", opGetErr: "Get->err"}

type hop struct {
	Client int    `json:"c"`
	Kind   opKind `json:"k"`
	Key    int    `json:"key"`
	Val    int64  `json:"v"`
	Call   int64  `json:"call"`
	Ret    int64  `json:"ret"`
	TTL    int64  `json:"ttl,omitempty"` // ns, for writes
}

func (o hop) String() string {
	s := fmt.Sprintf("c%d %s(k%d", o.Client, opNames[o.Kind], o.Key)
	switch o.Kind {
	case opSet, opLoad, opGetHit, opShared, opRange, opSetFalse:
		s += fmt.Sprintf(",%#x", o.Val)
	}
	if o.TTL != 0 {
		s += fmt.Sprintf(",ttl=%v", time.Duration(o.TTL))
	}
	return s + fmt.Sprintf(") [%d,%d]", o.Call, o.Ret)
}

func (o hop) isWrite() bool { return o.Kind == opSet || o.Kind == opLoad }
func (o hop) isRead() bool  { return o.Kind == opGetHit || o.Kind == opShared || o.Kind == opRange }

// mapModel: state = current value of the key, 0 = absent.
var mapModel = porcupine.Model{
	Init: func() interface{} { return int64(0) },
	Step: func(state, input, output interface{}) (bool, interface{}) {
		st := state.(int64)
		o := input.(hop)
		switch o.Kind {
		case opSet, opLoad:
			return true, o.Val
		case opDelete, opGetMiss, opSetFalse:
			// a miss is always legal (eviction / expiry may strike at any time) but a value
			// that has been seen gone may never come back
			return true, int64(0)
		case opGetHit, opShared, opRange:
			return st == o.Val, st
		}
		return true, st
	},
	Equal:             func(a, b interface{}) bool { return a.(int64) == b.(int64) },
	DescribeOperation: func(input, output interface{}) string { return input.(hop).String() },
}

// hybridModel: the register model for a two-tier cache (C14). It differs from
// mapModel in one rule: a miss is always legal and leaves the state unchanged.
// In a single-tier cache a miss means the value is gone for good, so a later
// hit of it is a resurrection; with a secondary tier a spurious miss (legal by
// the property) may be followed by a correct hit of the still-current value.
// What stays illegal is what the property names: a hit older than the last
// completed Set, or after a completed Delete.
var hybridModel = porcupine.Model{
	Init: mapModel.Init,
	Step: func(state, input, output interface{}) (bool, interface{}) {
		st := state.(int64)
		o := input.(hop)
		switch o.Kind {
		case opSet, opLoad:
			return true, o.Val
		case opDelete:
			return true, int64(0)
		case opGetMiss, opSetFalse:
			return true, st
		case opGetHit, opShared, opRange:
			return st == o.Val, st
		}
		return true, st
	},
	Equal:             mapModel.Equal,
	DescribeOperation: mapModel.DescribeOperation,
}

func checkKeyWith(model porcupine.Model, ops []hop, timeout time.Duration) porcupine.CheckResult {
	res, _ := porcupine.CheckOperationsVerbose(model, toPorc(ops), timeout)
	return res
}

func toPorc(ops []hop) []porcupine.Operation {
	out := make([]porcupine.Operation, len(ops))
	for i, o := range ops {
		out[i] = porcupine.Operation{ClientId: o.Client, Input: o, Call: o.Call, Output: nil, Return: o.Ret}
	}
	return out
}

func checkKey(ops []hop, timeout time.Duration) porcupine.CheckResult {
	return porcupine.CheckOperationsTimeout(mapModel, toPorc(ops), timeout)
}

// splitByKey partitions a history per key (a map is linearizable iff every
// key's sub-history is).
func splitByKey(ops []hop) map[int][]hop {
	m := map[int][]hop{}
	for _, o := range ops {
		if o.Kind == opGetErr {
			continue
		}
		m[o.Key] = append(m[o.Key], o)
	}
	return m
}

// shrink reduces an illegal per-key history to a small illegal core. Removing
// a write also removes the reads that observed it (reads-from closure), so the
// core never contains a read of a value whose write was dropped.
func shrink(ops []hop) []hop { return shrinkWith(mapModel, ops) }

func shrinkWith(model porcupine.Model, ops []hop) []hop {
	cur := append([]hop(nil), ops...)
	sort.Slice(cur, func(i, j int) bool { return cur[i].Call < cur[j].Call })
	illegal := func(h []hop) bool { return checkKeyWith(model, h, 5*time.Second) == porcupine.Illegal }
	if !illegal(cur) {
		return cur
	}
	// chunked removal first, then single ops
	for chunk := len(cur) / 2; chunk >= 1; chunk /= 2 {
		changed := true
		for changed {
			changed = false
			for i := 0; i+chunk <= len(cur); {
				drop := map[int]bool{}
				dropVals := map[int64]bool{}
				for j := i; j < i+chunk; j++ {
					drop[j] = true
					if cur[j].isWrite() {
						dropVals[cur[j].Val] = true
					}
				}
				var cand []hop
				for j, o := range cur {
					if drop[j] || (o.isRead() && dropVals[o.Val]) {
						continue
					}
					cand = append(cand, o)
				}
				if len(cand) < len(cur) && illegal(cand) {
					cur = cand
					changed = true
				} else {
					i += chunk
				}
			}
		}
	}
	return cur
}

// classify derives a cause key from an illegal core.
func classify(core []hop) (string, string) {
	writes := map[int64]hop{}
	for _, o := range core {
		if o.isWrite() {
			writes[o.Val] = o
		}
	}
	// a value is established once its write returned or some read returned it
	est := map[int64]int64{}
	for v, w := range writes {
		est[v] = w.Ret
	}
	for _, o := range core {
		if o.isRead() {
			if e, ok := est[o.Val]; ok && o.Ret < e {
				est[o.Val] = o.Ret
			}
		}
	}
	rk := map[opKind]string{opGetHit: "get", opShared: "loading-get-without-load", opRange: "range-visit"}
	kk := map[opKind]string{opSet: "overwrite", opLoad: "overwrite-by-load", opDelete: "delete", opGetMiss: "miss", opSetFalse: "rejected-set"}
	for _, r := range core {
		if !r.isRead() {
			continue
		}
		w, ok := writes[r.Val]
		if !ok {
			return "phantom-value/" + rk[r.Kind], fmt.Sprintf("%s returned %#x which no Set or load in this key's history produced", opNames[r.Kind], r.Val)
		}
		if r.Ret < w.Call {
			return "read-before-write/" + rk[r.Kind], fmt.Sprintf("%s returned %#x before the write that produced it was invoked", opNames[r.Kind], r.Val)
		}
		for _, k := range core {
			if k.isRead() || (k.isWrite() && k.Val == r.Val) {
				continue
			}
			// killer entirely after the write of v and entirely before the read
			if k.Call > est[r.Val] && k.Ret < r.Call {
				key := fmt.Sprintf("stale-read/%s-after-%s", rk[r.Kind], kk[k.Kind])
				if w.TTL != 0 {
					key += "/value-has-ttl"
				}
				if w.Kind == opLoad {
					key += "/value-was-loaded"
				}
				return key, fmt.Sprintf("%s returned %#x although %s completed after that value was written and before the read was invoked", r, r.Val, k)
			}
		}
	}
	return "non-linearizable/other", "no total order of this key's operations respects real time and the map semantics"
}

func hopStrings(ops []hop) []string {
	out := make([]string, len(ops))
	for i, o := range ops {
		out[i] = o.String()
	}
	return out
}

// overlapStats counts pairs of operations on one key that overlap in time and
// of which at least one is a write (the interesting concurrency of a history).
func overlapStats(ops []hop) int {
	sort.Slice(ops, func(i, j int) bool { return ops[i].Call < ops[j].Call })
	n := 0
	for i := range ops {
		for j := i + 1; j < len(ops) && ops[j].Call < ops[i].Ret; j++ {
			if ops[i].isWrite() || ops[j].isWrite() || ops[i].Kind == opDelete || ops[j].Kind == opDelete {
				n++
			}
		}
	}
	return n
}
