// verifrun executes the runtime monitors for the theine-go properties C01..C20.
// One sub-command per property; the python driver /verif/check builds this
// binary from /repo's working tree (tag verif, white-box overlay) and runs it.
package main

import (
	"flag"
	"fmt"
	"os"
	"runtime/debug"
	"strings"
)

var registry = map[string]func(r *Run){}

func main() {
	if len(os.Args) < 2 {
		fmt.Fprintln(os.Stderr, "usage: verifrun <property> [flags]")
		os.Exit(3)
	}
	prop := os.Args[1]
	fs := flag.NewFlagSet("verifrun", flag.ExitOnError)
	seed := fs.Int64("seed", 1, "PRNG seed")
	tier := fs.String("tier", "quick", "quick|thorough")
	out := fs.String("out", "", "result json path")
	replayDir := fs.String("replaydir", "/verif/replays", "witness directory")
	replay := fs.String("replay", "", "replay a recorded witness")
	shard := fs.Int("shard", 0, "shard index")
	nshards := fs.Int("nshards", 1, "number of shards")
	args := fs.String("args", "", "k=v,k=v extra arguments")
	_ = fs.Parse(os.Args[2:])

	f := registry[prop]
	if f == nil {
		fmt.Fprintln(os.Stderr, "unknown property", prop)
		os.Exit(3)
	}
	r := newRun(prop)
	r.Seed, r.Tier, r.Out, r.ReplayDir, r.Replay, r.Shard, r.NShards = *seed, *tier, *out, *replayDir, *replay, *shard, *nshards
	for _, kv := range strings.Split(*args, ",") {
		if i := strings.IndexByte(kv, '='); i > 0 {
			r.Args[kv[:i]] = kv[i+1:]
		}
	}
	debug.SetTraceback("all")
	f(r)
	r.Finish()
}
