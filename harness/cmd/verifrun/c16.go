package main

import (
	"context"
	"fmt"
	"math/rand"
	"runtime"
	"sync"
	"sync/atomic"
	"time"

	theine "github.com/Yiling-J/theine-go"
)

// C16 — counters and size views agree with what happened.
//
// Per-goroutine tallies of Get calls / hits / loader runs are compared with
// Stats() once all calls have returned; after Wait the size views (Len, Range
// with and without early stop, EstimatedSize) are compared with each other and
// with a Get of every key of the universe (cost is encoded in the value).

func init() { registry["C16"] = runC16 }

type c16Cfg struct {
	Kind    string `json:"cache"`
	MaxSize int64  `json:"maxsize"`
	G       int    `json:"goroutines"`
	Keys    int    `json:"keys"`
	Ops     int    `json:"ops_per_goroutine"`
	TTLs    bool   `json:"short_ttls_in_stats_phase"`
	Burst   bool   `json:"same_key_bursts"`
}

func c16Round(r *Run, idx int) {
	rng := r.Rng(int64(idx))
	cfg := c16Cfg{Kind: []string{"plain", "loading"}[idx%2], MaxSize: []int64{50, 500, 5000}[rng.Intn(3)], G: []int{1, 2, 8, 16, 32}[rng.Intn(5)],
		Keys: 20 + rng.Intn(3000), Ops: r.Pick(6000, 20000), TTLs: rng.Intn(2) == 0, Burst: rng.Intn(2) == 0}
	costOf := func(v int64) int64 { return v&7 + 1 }
	var c *theine.Cache[int, int64]
	var lc *theine.LoadingCache[int, int64]
	var loads atomic.Int64
	var vseq atomic.Int64
	b := theine.NewBuilder[int, int64](cfg.MaxSize).Cost(costOf)
	var err error
	if cfg.Kind == "plain" {
		c, err = b.Build()
	} else {
		lc, err = b.Loading(func(ctx context.Context, k int) (theine.Loaded[int64], error) {
			loads.Add(1)
			if tok, ok := ctx.Value(tokKeyT{}).(*loadTok); ok {
				tok.loaded = true
			}
			n := vseq.Add(1)
			if n%2 == 0 {
				runtime.Gosched()
			} else if n%7 == 0 {
				time.Sleep(200 * time.Microsecond)
			}
			return theine.Loaded[int64]{Value: n << 8}, nil // cost 0 => cost function
		}).Build()
	}
	if err != nil {
		r.Broken("build: %v", err)
		return
	}
	st := func() (hits, misses uint64) {
		if c != nil {
			s := c.Stats()
			return s.Hits(), s.Misses()
		}
		s := lc.Stats()
		return s.Hits(), s.Misses()
	}
	defer func() {
		if c != nil {
			c.Close()
		} else {
			lc.Close()
		}
	}()
	fail := func(key, what string, extra map[string]any) {
		extra["config"] = cfg
		extra["round"] = idx
		r.Violate(key, fmt.Sprintf("round %d (%s, %d goroutines): %s", idx, cfg.Kind, cfg.G, what), extra)
	}
	var gets, hits, leaders, withValue atomic.Int64
	phase := func(ttls bool, ops int) {
		var wg sync.WaitGroup
		burstKey := atomic.Int64{}
		burstKey.Store(int64(1_000_000 + idx*100000))
		for g := 0; g < cfg.G; g++ {
			wr := rand.New(rand.NewSource(rng.Int63()))
			wg.Add(1)
			go func(g int) {
				defer wg.Done()
				var myGets, myHits, myLeaders, myVals int64
				for i := 0; i < ops; i++ {
					k := wr.Intn(cfg.Keys)
					if cfg.Burst && i%64 < 8 {
						// everybody reads the same fresh key at about the same time
						k = int(burstKey.Load()) + i/64
					}
					switch x := wr.Intn(100); {
					case x < 55:
						myGets++
						if c != nil {
							if _, ok := c.Get(k); ok {
								myHits++
								myVals++
							}
						} else {
							tok := &loadTok{}
							_, err := lc.Get(context.WithValue(context.Background(), tokKeyT{}, tok), k)
							if err == nil {
								myVals++
							}
							if tok.loaded {
								myLeaders++
							}
						}
					case x < 80:
						v := vseq.Add(1) << 8
						var ttl time.Duration
						if ttls && wr.Intn(3) == 0 {
							ttl = time.Duration(1+wr.Intn(3000)) * time.Microsecond
						} else if wr.Intn(4) == 0 {
							ttl = time.Hour
						}
						if c != nil {
							c.SetWithTTL(k, v, 0, ttl)
						} else {
							lc.SetWithTTL(k, v, 0, ttl)
						}
					case x < 92:
						if c != nil {
							c.Delete(k)
						} else {
							lc.Delete(k)
						}
					case x < 96:
						if c != nil {
							_ = c.Len()
						} else {
							_ = lc.Len()
						}
					default:
						n := 0
						f := func(int, int64) bool { n++; return n < 5 }
						if c != nil {
							c.Range(f)
						} else {
							lc.Range(f)
						}
					}
				}
				gets.Add(myGets)
				hits.Add(myHits)
				leaders.Add(myLeaders)
				withValue.Add(myVals)
			}(g)
		}
		wg.Wait()
	}
	// ---- phase 1: counters under concurrency (short TTLs allowed)
	phase(cfg.TTLs, cfg.Ops)
	h, m := st()
	checkStats := func(where string) {
		h, m = st()
		g := uint64(gets.Load())
		if h+m != g {
			fail("hits+misses!=gets", fmt.Sprintf("%s: %d Get calls returned but Hits()+Misses() = %d+%d = %d", where, g, h, m, h+m), map[string]any{})
		}
		if cfg.Kind == "plain" {
			if h != uint64(hits.Load()) {
				fail("hits!=values-returned", fmt.Sprintf("%s: %d Gets returned a value but Hits() = %d", where, hits.Load(), h), map[string]any{})
			}
		} else {
			ld := uint64(loads.Load())
			if ld > m {
				fail("loads>misses", fmt.Sprintf("%s: loader ran %d times but Misses() = %d", where, ld, m), map[string]any{})
			}
			if h > g-uint64(leaders.Load()) {
				fail("hits>gets-without-load", fmt.Sprintf("%s: Hits() = %d exceeds the %d Gets that did not run the loader", where, h, g-uint64(leaders.Load())), map[string]any{})
			}
		}
	}
	checkStats("after concurrent phase")
	// ---- phase 2: size views after drain; no short TTLs, so 'resident' is unambiguous
	if cfg.TTLs {
		// let every short TTL of phase 1 pass and be reclaimed: 2 real seconds would be needed; use a fresh quiet phase instead
		var store = func() interface{ VerifTick() } {
			if c != nil {
				return c.VerifStore()
			}
			return lc.VerifStore()
		}()
		if c != nil {
			c.Wait()
			c.VerifStore().VerifShiftClock(5*time.Second, true)
		} else {
			lc.Wait()
			lc.VerifStore().VerifShiftClock(5*time.Second, true)
		}
		store.VerifTick()
	}
	phase(false, cfg.Ops/4)
	if c != nil {
		c.Wait()
	} else {
		lc.Wait()
	}
	checkStats("after second phase")
	var length, est int
	visited := map[int]int64{}
	nvis := 0
	f := func(k int, v int64) bool { visited[k] = v; nvis++; return true }
	if c != nil {
		length, est = c.Len(), c.EstimatedSize()
		c.Range(f)
	} else {
		length, est = lc.Len(), lc.EstimatedSize()
		lc.Range(f)
	}
	if nvis != len(visited) {
		fail("range-visited-key-twice", fmt.Sprintf("Range made %d callbacks for %d distinct keys", nvis, len(visited)), map[string]any{})
	}
	if length != nvis {
		fail("len!=range-visits", fmt.Sprintf("Len() = %d but Range visited %d entries (quiescent, no short TTLs)", length, nvis), map[string]any{})
	}
	var sum int64
	for _, v := range visited {
		sum += costOf(v)
	}
	if int64(est) != sum {
		fail("estimatedsize!=sum-of-costs", fmt.Sprintf("EstimatedSize() = %d but the resident entries' costs sum to %d", est, sum), map[string]any{"resident": len(visited)})
	}
	if int64(est) > cfg.MaxSize {
		fail("estimatedsize>maxsize", fmt.Sprintf("EstimatedSize() = %d > MaxSize %d after drain", est, cfg.MaxSize), map[string]any{})
	}
	// Range view vs Get view over the whole key universe (plain Get only: a loading Get would load)
	if c != nil {
		extraKeys := []int{}
		for k := range visited {
			extraKeys = append(extraKeys, k)
		}
		mism := 0
		probe := func(k int) {
			v, ok := c.Get(k)
			gets.Add(1)
			if ok {
				hits.Add(1)
			}
			rv, rok := visited[k]
			if ok != rok || (ok && v != rv) {
				mism++
				if mism <= 3 {
					fail("range-vs-get-mismatch", fmt.Sprintf("key %d: Get gives (%#x,%v), Range visited (%#x,%v)", k, v, ok, rv, rok), map[string]any{})
				}
			}
		}
		for k := 0; k < cfg.Keys; k++ {
			probe(k)
		}
		for _, k := range extraKeys {
			if k >= cfg.Keys {
				probe(k)
			}
		}
		checkStats("after universe probe")
	}
	// early stop
	for _, stopAfter := range []int{1, 2, 7, nvis} {
		if stopAfter < 1 || stopAfter > nvis {
			continue
		}
		calls := 0
		g := func(int, int64) bool { calls++; return calls < stopAfter }
		if c != nil {
			c.Range(g)
		} else {
			lc.Range(g)
		}
		if calls != stopAfter {
			fail("range-ignored-stop", fmt.Sprintf("Range callback returned false at call %d of %d resident entries but was called %d times", stopAfter, nvis, calls), map[string]any{})
		}
	}
	r.Eval(1)
	r.Count("get_calls_checked", gets.Load())
	r.Count("loader_runs", loads.Load())
	r.Count("resident_at_barrier", int64(nvis))
	r.Distinct(fmt.Sprintf("%s/M%d/g%d/k%d/t%v/b%v", cfg.Kind, cfg.MaxSize, cfg.G, cfg.Keys/100, cfg.TTLs, cfg.Burst))
	r.Sample(4, map[string]any{"config": cfg, "gets": gets.Load(), "hits": h, "misses": m, "len": length, "estimated_size": est})
}

// c16RangeVsGet: Range and Get agree about which entries exist, also when some deadlines have just passed and the
// cache's once-a-second cached clock has not caught up (virtual time moves, the cached clock is left behind by less
// than the 30 s the read path tolerates). Deadlines keep two seconds clear of the probing instant.
func c16RangeVsGet(r *Run, idx int) {
	rng := r.Rng(int64(16600 + idx))
	a, err := newAnyCache([]string{"plain", "loading"}[idx%2], anyOpts{MaxSize: 10000})
	if err != nil {
		r.Broken("build: %v", err)
		return
	}
	defer a.store().Close()
	st := a.store()
	n := 100 + rng.Intn(200)
	shift := time.Duration(8+rng.Intn(12)) * time.Second
	dead := map[int]bool{}
	for k := 0; k < n; k++ {
		var ttl time.Duration
		switch rng.Intn(3) {
		case 0:
			ttl = 0
		case 1:
			ttl = shift - time.Duration(2+rng.Intn(5))*time.Second // passed by the time of the probe
			dead[k] = true
		default:
			ttl = shift + time.Duration(2+rng.Intn(8))*time.Second
		}
		a.set(k, int64(k)+1, 1, ttl)
	}
	a.wait()
	st.VerifRefreshClock()
	st.VerifShiftClock(shift, true) // the cached clock now lags by `shift` (< 30 s)
	visited := map[int]bool{}
	a.rangeAll(func(k int, v int64) bool { visited[k] = true; return true })
	ghosts, hidden, served := 0, 0, 0
	var first string
	for k := 0; k < n; k++ {
		hit := false
		if a.kind == "plain" {
			_, hit, _ = a.get(context.Background(), k)
		} else {
			hit = visited[k] // a loading Get would reload; Range is judged against the deadlines alone below
		}
		switch {
		case visited[k] && !hit:
			ghosts++
			if first == "" {
				first = fmt.Sprintf("Range visited key %d, Get(%d) misses", k, k)
			}
		case !visited[k] && hit:
			hidden++
		}
		if dead[k] && visited[k] {
			served++
			if first == "" {
				first = fmt.Sprintf("Range visited key %d whose deadline passed at least 2 s ago", k)
			}
		}
	}
	if ghosts+hidden+served > 0 {
		r.Violate("range-and-get-disagree/deadlines-just-passed", fmt.Sprintf("round %d (%s cache, %d keys, virtual time +%v with the cached clock left behind): Range visited %d keys that Get misses, missed %d that Get finds, and visited %d whose deadline had passed (first: %s)", idx, a.kind, n, shift, ghosts, hidden, served, first),
			map[string]any{"round": idx, "cache": a.kind})
	}
	r.Eval(1)
	r.Count("range_vs_get_rounds", 1)
	r.Distinct("range-vs-get/" + a.kind)
}

func runC16(r *Run) {
	r.Rule("case = one round: concurrent mixed phase (Get/Set/SetWithTTL/Delete/Len/Range, same-key bursts, short TTLs), Stats compared with per-goroutine tallies once all calls returned; then a quiet phase, Wait, and comparison of Len / Range / early-stop Range / EstimatedSize / Get of every key. Non-trivial = every round; distinct by configuration tuple")
	r.Assume("cost is encoded in the value (low 3 bits + 1) and applied through the cost function",
		"for loading caches Hits() cannot be told apart from shared loads at the client boundary: the oracle demands Hits+Misses == gets, loads <= Misses and Hits <= gets that did not run the loader")
	n := r.Pick(40, 1200)
	parMap(n, 4, func(i int) { c16Round(r, i) })
	// EstimatedSize against the resident cost after writes that change the cost of an entry whose deadline has
	// passed but which has not been reclaimed (c02.go; the rounds above keep clear of expired entries)
	if r.Shard == 0 {
		for i := 0; i < r.Pick(12, 120); i++ {
			expiredThenRewritten(r, i, "C16")
		}
		for i := 0; i < r.Pick(8, 80); i++ {
			c16RangeVsGet(r, i)
		}
		// Len and Range against what is resident after LoadCache into a cache in use (c02.go)
		for i := 0; i < r.Pick(12, 120); i++ {
			bulkLoad(r, i, "C16")
		}
		// the size views after two Sets of one key whose cost deltas reached the policy in reverse order (c06.go, hook H1)
		for i := 0; i < r.Pick(6, 60); i++ {
			reorderedCostDeltas(r, i, "C16")
		}
	}
}
