package main

import (
	"fmt"
	"strings"
	"time"

	theine "github.com/Yiling-J/theine-go"
)

// hangdebug: strands one goroutine in Store.Wait on purpose (two concurrent
// Waits on an idle cache until one does not return) and prints what every
// stage of the deadlock predicate sees. Diagnosis aid for the monitors.
func init() {
	registry["hangdebug"] = func(r *Run) {
		c, _ := theine.NewBuilder[int, int](100).Build()
		st := c.VerifStore()
		done := make(chan int, 64)
		for round := 0; round < 2000; round++ {
			for w := 0; w < 2; w++ {
				go func(w int) { c.Wait(); done <- w }(w)
			}
			got := 0
			timeout := time.After(300 * time.Millisecond)
		loop:
			for got < 2 {
				select {
				case <-done:
					got++
				case <-timeout:
					break loop
				}
			}
			if got < 2 {
				fmt.Printf("round %d: %d of 2 Waits returned\n", round, got)
				break
			}
		}
		raw := allStacks()
		hdrs := []string{}
		for _, ln := range strings.Split(raw, "\n") {
			if strings.HasPrefix(ln, "goroutine ") {
				hdrs = append(hdrs, ln)
			}
		}
		fmt.Printf("raw headers from runtime.Stack: %q\n", hdrs)
		gs := parseGoroutines(raw)
		fmt.Printf("parsed %d goroutines; self=%d\n", len(gs), goid())
		for _, g := range gs {
			fmt.Printf("  id=%d state=%q top=%q\n", g.ID, g.State, g.topTheineFrame())
		}
		sd := stableDump(150 * time.Millisecond)
		fmt.Printf("stableDump: %d goroutines, blind=%v, maintenanceState=%q, queueLen=%d\n", len(sd), dumpBlind.Load(), maintenanceState(sd), st.VerifQueueLen())
		n, what := c20Stuck(st.VerifQueueLen)
		fmt.Printf("c20Stuck -> n=%d what=%q\n", n, what)
	}
}
