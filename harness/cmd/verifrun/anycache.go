package main

import (
	"context"
	"io"
	"sync/atomic"
	"time"

	theine "github.com/Yiling-J/theine-go"
	"github.com/Yiling-J/theine-go/internal"
)

// anyCache is one client-side face over the four public cache kinds
// (plain / loading / hybrid / hybrid-loading) with int keys and int64 values,
// so that scenario code is written once. It only forwards to the public API
// (plus the white-box store handle for the monitors).
type anyCache struct {
	kind    string
	c       *theine.Cache[int, int64]
	lc      *theine.LoadingCache[int, int64]
	hc      *theine.HybridCache[int, int64]
	hlc     *theine.HybridLoadingCache[int, int64]
	sec     *monSecondary[int, int64]
	workers int
	route   string // which builder route made it
}

// The builder offers two routes to a loading cache (Loading(l).Build() and BuildWithLoader(l)) and two to a hybrid
// loading cache (Hybrid(s).Loading(l).Build() and Loading(l).Hybrid(s).Build(), the latter with the default workers
// and admission probability). Every second eligible construction takes the other route, so that an option lost on
// one route (each copies the options on its own) is seen by whatever monitor uses the cache.
var anyRouteToggle atomic.Int64

type anyOpts struct {
	MaxSize  int64
	Listener func(k int, v int64, r theine.RemoveReason)
	Loader   func(ctx context.Context, k int) (theine.Loaded[int64], error)
	Cost     func(v int64) int64
	Workers  int
	Prob     float32
	ProbSet  bool
	KeepLog  bool
	Pool     bool
	// Doorkeeper turns the bloom-filter doorkeeper on
	Doorkeeper bool
}

var anyKinds = []string{"plain", "loading", "hybrid", "hybrid-loading"}

func newAnyCache(kind string, o anyOpts) (*anyCache, error) {
	a := &anyCache{kind: kind}
	b := theine.NewBuilder[int, int64](o.MaxSize)
	if o.Listener != nil {
		b = b.RemovalListener(o.Listener)
	}
	if o.Cost != nil {
		b = b.Cost(o.Cost)
	}
	if o.Pool {
		b = b.UseEntryPool(true)
	}
	if o.Doorkeeper {
		b = b.Doorkeeper(true)
	}
	loader := o.Loader
	if loader == nil {
		loader = func(ctx context.Context, k int) (theine.Loaded[int64], error) {
			return theine.Loaded[int64]{Value: int64(k), Cost: 1}, nil
		}
	}
	workers := o.Workers
	if workers == 0 {
		workers = 2
	}
	a.workers = workers
	var err error
	switch kind {
	case "plain":
		a.c, err = b.Build()
	case "loading":
		if anyRouteToggle.Add(1)%2 == 0 {
			a.route = "BuildWithLoader"
			a.lc, err = b.BuildWithLoader(loader)
		} else {
			a.route = "Loading.Build"
			a.lc, err = b.Loading(loader).Build()
		}
	case "hybrid":
		a.sec = newMonSecondary[int, int64](o.KeepLog)
		hb := b.Hybrid(a.sec).Workers(workers)
		if o.ProbSet {
			hb = hb.AdmProbability(o.Prob)
		}
		a.hc, err = hb.Build()
	case "hybrid-loading":
		a.sec = newMonSecondary[int, int64](o.KeepLog)
		if workers == 2 && (!o.ProbSet || o.Prob == 1) && anyRouteToggle.Add(1)%2 == 0 {
			a.route = "Loading.Hybrid.Build"
			a.hlc, err = b.Loading(loader).Hybrid(a.sec).Build()
			break
		}
		a.route = "Hybrid.Loading.Build"
		hb := b.Hybrid(a.sec).Workers(workers)
		if o.ProbSet {
			hb = hb.AdmProbability(o.Prob)
		}
		a.hlc, err = hb.Loading(loader).Build()
	}
	return a, err
}

func (a *anyCache) loading() bool { return a.kind == "loading" || a.kind == "hybrid-loading" }
func (a *anyCache) hybrid() bool  { return a.kind == "hybrid" || a.kind == "hybrid-loading" }

// get returns (value, found, error). For loading kinds found == (err == nil).
func (a *anyCache) get(ctx context.Context, k int) (int64, bool, error) {
	switch a.kind {
	case "plain":
		v, ok := a.c.Get(k)
		return v, ok, nil
	case "loading":
		v, err := a.lc.Get(ctx, k)
		return v, err == nil, err
	case "hybrid":
		return a.hc.Get(k)
	default:
		v, err := a.hlc.Get(ctx, k)
		return v, err == nil, err
	}
}

func (a *anyCache) set(k int, v int64, cost int64, ttl time.Duration) bool {
	switch a.kind {
	case "plain":
		return a.c.SetWithTTL(k, v, cost, ttl)
	case "loading":
		return a.lc.SetWithTTL(k, v, cost, ttl)
	case "hybrid":
		return a.hc.SetWithTTL(k, v, cost, ttl)
	default:
		return a.hlc.SetWithTTL(k, v, cost, ttl)
	}
}

func (a *anyCache) del(k int) error {
	switch a.kind {
	case "plain":
		a.c.Delete(k)
		return nil
	case "loading":
		a.lc.Delete(k)
		return nil
	case "hybrid":
		return a.hc.Delete(k)
	default:
		return a.hlc.Delete(k)
	}
}

// closeAPI calls the kind's public Close method.
func (a *anyCache) closeAPI() {
	switch a.kind {
	case "plain":
		a.c.Close()
	case "loading":
		a.lc.Close()
	case "hybrid":
		a.hc.Close()
	default:
		a.hlc.Close()
	}
}

func (a *anyCache) store() *internal.Store[int, int64] {
	switch a.kind {
	case "plain":
		return a.c.VerifStore()
	case "loading":
		return a.lc.VerifStore()
	case "hybrid":
		return a.hc.VerifStore()
	default:
		return a.hlc.VerifStore()
	}
}

// wait forwards to the public Wait where the kind has one (hybrid kinds expose none).
func (a *anyCache) wait() {
	switch a.kind {
	case "plain":
		a.c.Wait()
	case "loading":
		a.lc.Wait()
	default:
		a.store().Wait()
	}
}

func (a *anyCache) hasPublicWait() bool { return a.kind == "plain" || a.kind == "loading" }

// length / rangeCount use the public API where available, else the store.
func (a *anyCache) length() int {
	switch a.kind {
	case "plain":
		return a.c.Len()
	case "loading":
		return a.lc.Len()
	default:
		return a.store().Len()
	}
}

func (a *anyCache) rangeAll(f func(k int, v int64) bool) {
	switch a.kind {
	case "plain":
		a.c.Range(f)
	case "loading":
		a.lc.Range(f)
	default:
		a.store().Range(f)
	}
}

// save / load forward to the kind's SaveCache / LoadCache.
func (a *anyCache) save(version uint64, w io.Writer) error {
	switch a.kind {
	case "plain":
		return a.c.SaveCache(version, w)
	case "loading":
		return a.lc.SaveCache(version, w)
	case "hybrid":
		return a.hc.SaveCache(version, w)
	default:
		return a.hlc.SaveCache(version, w)
	}
}

func (a *anyCache) load(version uint64, rd io.Reader) error {
	switch a.kind {
	case "plain":
		return a.c.LoadCache(version, rd)
	case "loading":
		return a.lc.LoadCache(version, rd)
	case "hybrid":
		return a.hc.LoadCache(version, rd)
	default:
		return a.hlc.LoadCache(version, rd)
	}
}
