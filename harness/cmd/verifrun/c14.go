package main

import (
	"context"
	"fmt"
	"math/rand"
	"sort"
	"strings"
	"sync"
	"sync/atomic"
	"time"

	theine "github.com/Yiling-J/theine-go"
	"github.com/Yiling-J/theine-go/internal"
	"github.com/anishathalye/porcupine"
)

// C14 — hybrid cache never serves a stale, deleted or expired value from
// either tier.
//
// The secondary store is the harness's own (secmon.go): every call the cache
// makes to it is logged with the logical clock, it can fail or stall per call.
// Tier crossings are forced with the package's own EVICTE event for a chosen
// key (white-box VerifEvict) and awaited through the hand-off hooks H4
// (enqueued == processed), never by sleeping.
// Oracle: a register model over the client history (a hit must be the latest
// completed Set, nothing after a completed Delete), whichever tier answered. A
// miss is always legal and, unlike in C01's single-tier model, leaves the
// state unchanged: with two tiers a spurious miss may be followed by a correct
// hit of the still-current value, which the property allows;
// plus, in scripted scenarios under virtual time, no value at or after its
// deadline. A stale answer is attributed to the secondary tier when the
// secondary store's log shows a Get returning that value inside the read.

func init() { registry["C14"] = runC14 }

// ---- hand-off barrier through hooks H4

type secBarrier struct {
	enq, done atomic.Int64
}

func (b *secBarrier) hook(id int) {
	switch id {
	case internal.VPSecEnq:
		b.enq.Add(1)
	case internal.VPSecDone:
		b.done.Add(1)
	}
}

// settle waits until every write event is applied and every hand-off processed.
func (b *secBarrier) settle(a *anyCache) bool {
	for i := 0; i < 20000; i++ {
		a.wait()
		if b.enq.Load() == b.done.Load() && a.store().VerifSecQueueLen() == 0 {
			a.wait()
			if b.enq.Load() == b.done.Load() {
				return true
			}
		}
		time.Sleep(50 * time.Microsecond)
	}
	return false
}

// demote forces key k out of the memory tier and waits for the hand-off.
// Returns whether k is no longer resident in memory.
func (b *secBarrier) demote(a *anyCache, k int) bool {
	if !a.store().VerifEvict(k) {
		return !a.store().VerifResident(k)
	}
	if !b.settle(a) {
		return false
	}
	return !a.store().VerifResident(k)
}

type c14Script struct {
	Name  string   `json:"scenario"`
	Kind  string   `json:"cache"`
	Steps []string `json:"steps"`
}

func c14Scripted(r *Run, idx int) {
	rng := r.Rng(int64(14000 + idx))
	for _, kind := range []string{"hybrid", "hybrid-loading"} {
		for _, name := range []string{"update-after-promotion", "update-after-promotion-then-dropped-handoff", "delete-while-only-in-secondary", "ttl-passes-while-demoted",
			"update-while-demoted", "delete-after-promotion", "ttl-less-value-survives-demotion", "get-during-slow-delete-of-demoted-key", "ttl-passes-while-demoted-and-cached-clock-lags"} {
			c14RunScript(r, idx, kind, name, rng)
		}
	}
}

func c14RunScript(r *Run, idx int, kind, name string, rng *rand.Rand) {
	bar := &secBarrier{}
	internal.VerifSetHook(bar.hook)
	defer internal.VerifSetHook(nil)
	var loads atomic.Int64
	a, err := newAnyCache(kind, anyOpts{MaxSize: 50, KeepLog: true, Workers: 1 + rng.Intn(2), Prob: 1, ProbSet: true,
		Loader: func(ctx context.Context, k int) (theine.Loaded[int64], error) {
			return theine.Loaded[int64]{Value: 9_000_000 + loads.Add(1), Cost: 1}, nil
		}})
	if err != nil {
		r.Broken("build: %v", err)
		return
	}
	defer a.store().Close()
	st := a.store()
	sc := c14Script{Name: name, Kind: kind}
	step := func(f string, x ...any) { sc.Steps = append(sc.Steps, fmt.Sprintf(f, x...)) }
	k := 100 + rng.Intn(1000)
	v1, v2 := int64(1000+idx*10+1), int64(1000+idx*10+2)
	get := func() (int64, bool) {
		v, ok, err := a.get(context.Background(), k)
		step("Get(%d) -> (%d, %v, err=%v)", k, v, ok, err)
		return v, ok && err == nil
	}
	fail := func(key, what string) {
		r.Violate(key+"/"+kind, fmt.Sprintf("%s on %s cache: %s; steps: %v", name, kind, what, sc.Steps), map[string]any{"script": sc, "secondary_log": tailLog(a.sec.log(), 12)})
	}
	demote := func() bool {
		a.wait()
		ok := bar.demote(a, k)
		_, inSec := a.sec.peek(k)
		step("force eviction of %d -> resident in memory: %v, in secondary: %v", k, st.VerifResident(k), inSec)
		return ok
	}
	stale := func(got int64, want int64, what string) bool {
		if got == want {
			return false
		}
		if a.loading() && got >= 9_000_000 {
			return false // a fresh load is never stale
		}
		fail(what, fmt.Sprintf("Get returned %d, the latest completed Set stored %d", got, want))
		return true
	}
	settled := true
	switch name {
	case "update-after-promotion", "update-after-promotion-then-dropped-handoff":
		a.set(k, v1, 1, 0)
		step("Set(%d, %d)", k, v1)
		settled = demote()
		if v, ok := get(); settled && (!ok || v != v1) && !a.loading() {
			fail("demoted-value-not-retrievable", fmt.Sprintf("after demotion Get returned (%d,%v), stored %d", v, ok, v1))
			return
		}
		if name == "update-after-promotion-then-dropped-handoff" {
			// Stall the secondary store and fill the hand-off queue first, so that the eviction of
			// the updated value below finds no room and its demotion is dropped. A worker inside a
			// stalled secondary Set holds that key's shard read lock, so every step from here on
			// only touches keys of other shards, and is bounded: a step that cannot finish opens
			// the gate and makes the scenario inconclusive.
			for f := 0; f < 45; f++ {
				a.set(40000+f, 1, 1, 0)
			}
			a.wait()
			gate := make(chan struct{})
			a.sec.mu.Lock()
			a.sec.setGate = gate
			a.sec.mu.Unlock()
			opened := false
			open := func() {
				if !opened {
					opened = true
					a.sec.mu.Lock()
					a.sec.setGate = nil
					a.sec.mu.Unlock()
					close(gate)
				}
			}
			defer open()
			bounded := func(f func()) bool {
				d := make(chan struct{})
				go func() { f(); close(d) }()
				select {
				case <-d:
					return true
				case <-time.After(2 * time.Second):
					return false
				}
			}
			// feed the workers until each is stalled inside a secondary Set. A stalled worker keeps its key's shard
			// locked (exclusively, since the write and the removal happen under one hold): the forced evictions
			// skip such shards, and the whole step is bounded - a white-box call that does walk into a held shard
			// is released when the gate opens
			fed := bounded(func() {
				for f := 0; f < 45 && int(a.sec.inSet.Load()) < a.workers; f++ {
					held := false
					for _, sk := range a.sec.stalledKeys() {
						if st.VerifShardOf(sk) == st.VerifShardOf(40000+f) {
							held = true
						}
					}
					if held {
						continue
					}
					before := a.sec.inSet.Load()
					st.VerifEvict(40000 + f)
					for i := 0; i < 300 && a.sec.inSet.Load() == before; i++ {
						time.Sleep(100 * time.Microsecond) // let a worker pick it up before choosing the next key
					}
				}
			})
			if !fed {
				open()
				bar.settle(a)
				r.Inconclusive(1)
				return
			}
			blocked := map[int]bool{}
			for _, sk := range a.sec.stalledKeys() {
				blocked[st.VerifShardOf(sk)] = true
			}
			if blocked[st.VerifShardOf(k)] || int(a.sec.inSet.Load()) < a.workers {
				open()
				bar.settle(a)
				r.Inconclusive(1)
				return
			}
			ok := bounded(func() {
				next := 50000
				for st.VerifSecQueueLen() < st.VerifSecQueueCap() {
					var batch []int
					for len(batch) < 40 {
						next++
						if !blocked[st.VerifShardOf(next)] {
							batch = append(batch, next)
							a.set(next, 1, 1, 0)
						}
					}
					a.wait()
					for _, fk := range batch {
						st.VerifEvict(fk)
					}
					a.wait()
					if next > 90000 {
						break
					}
				}
			})
			step("hand-off queue filled (%d of %d waiting) while %d worker(s) are stalled inside the secondary store", st.VerifSecQueueLen(), st.VerifSecQueueCap(), a.workers)
			ok = ok && st.VerifSecQueueLen() >= st.VerifSecQueueCap() && bounded(func() {
				a.set(k, v2, 1, 0)
				a.wait()
				st.VerifEvict(k)
				a.wait()
			})
			if !ok {
				open()
				bar.settle(a)
				r.Inconclusive(1)
				return
			}
			step("Set(%d, %d), then evicted with the queue full -> resident: %v", k, v2, st.VerifResident(k))
			open()
			settled = bar.settle(a)
			if rec, inSec := a.sec.peek(k); inSec {
				step("secondary tier holds %d for the key", rec.Val)
			}
		} else {
			a.set(k, v2, 1, 0)
			step("Set(%d, %d)  (key was promoted from the secondary tier)", k, v2)
			a.wait()
			settled = demote()
		}
		if v, ok := get(); ok {
			key := "stale-read/get-after-overwrite/promoted-then-updated-then-evicted"
			if name != "update-after-promotion" {
				key = "stale-read/get-after-overwrite/updated-value-dropped-on-full-handoff-queue"
			}
			stale(v, v2, key)
		}
	case "delete-while-only-in-secondary":
		a.set(k, v1, 1, 0)
		step("Set(%d, %d)", k, v1)
		settled = demote()
		if err := a.del(k); err != nil {
			step("Delete(%d) -> %v", k, err)
		} else {
			step("Delete(%d)", k)
		}
		if v, ok := get(); ok && !(a.loading() && v >= 9_000_000) {
			fail("stale-read/get-after-delete/key-only-in-secondary", fmt.Sprintf("Get returned %d after Delete had completed (the key lived only in the secondary tier)", v))
		}
	case "delete-after-promotion":
		a.set(k, v1, 1, 0)
		step("Set(%d, %d)", k, v1)
		settled = demote()
		get()
		_ = a.del(k)
		step("Delete(%d)", k)
		if v, ok := get(); ok && !(a.loading() && v >= 9_000_000) {
			fail("stale-read/get-after-delete/promoted", fmt.Sprintf("Get returned %d after Delete had completed", v))
		}
	case "ttl-passes-while-demoted":
		ttl := time.Duration(5+rng.Intn(100)) * time.Second
		a.set(k, v1, 1, ttl)
		step("SetWithTTL(%d, %d, %v)", k, v1, ttl)
		settled = demote()
		st.VerifShiftClock(ttl+time.Second, true)
		st.VerifRefreshClock()
		step("virtual time +%v", ttl+time.Second)
		if v, ok := get(); ok && v == v1 {
			fail("served-expired/from-secondary-tier", fmt.Sprintf("Get returned %d one second after its TTL of %v had passed while it was demoted", v, ttl))
		}
	case "ttl-passes-while-demoted-and-cached-clock-lags":
		// as above, but the cache's once-a-second cached clock has not caught up yet (it lags by less than the 30 s
		// the read path tolerates - a longer lag is C03's subject): the deadline must be judged by the real clock
		ttl := time.Duration(3+rng.Intn(20)) * time.Second
		a.set(k, v1, 1, ttl)
		step("SetWithTTL(%d, %d, %v)", k, v1, ttl)
		settled = demote()
		st.VerifRefreshClock()
		st.VerifShiftClock(ttl+time.Second, true)
		step("virtual time +%v, cached clock not yet refreshed (lag %v)", ttl+time.Second, time.Duration(st.VerifNowNano()-st.VerifNowCached()).Round(time.Millisecond))
		lag := st.VerifNowNano() - st.VerifNowCached()
		v, ok := get()
		if lag2 := st.VerifNowNano() - st.VerifNowCached(); lag2 < lag-int64(time.Second)/2 || lag >= int64(30*time.Second) {
			// the ticker refreshed the cached clock in between: the lagging-clock arm did not take place
			r.Count("cached_clock_refreshed_before_the_read", 1)
		} else {
			r.Count("reads_with_lagging_cached_clock", 1)
		}
		if ok && v == v1 {
			fail("served-expired/from-secondary-tier/cached-clock-lagging", fmt.Sprintf("Get returned %d one second after its TTL of %v had passed while it was demoted (cached clock %v behind)", v, ttl, time.Duration(lag).Round(time.Millisecond)))
		}
	case "get-during-slow-delete-of-demoted-key":
		// The key lives in the secondary tier only; its Delete is slow inside the secondary store. A Get of the key
		// issued meanwhile may be answered either way, but once the Delete has returned the value must be gone from
		// both tiers. Every wait is bounded and only paces the scenario: the verdict is the final Get.
		a.set(k, v1, 1, 0)
		step("Set(%d, %d)", k, v1)
		settled = demote()
		gate := make(chan struct{})
		a.sec.mu.Lock()
		a.sec.delGate = gate
		a.sec.mu.Unlock()
		delDone, getDone := make(chan struct{}), make(chan struct{})
		go func() { _ = a.del(k); close(delDone) }()
		for i := 0; i < 20000 && a.sec.inDel.Load() == 0; i++ {
			time.Sleep(50 * time.Microsecond)
		}
		inside := a.sec.inDel.Load() > 0
		var gv int64
		var gok bool
		go func() {
			v, ok, err := a.get(context.Background(), k)
			gv, gok = v, ok && err == nil
			close(getDone)
		}()
		early := false
		select {
		case <-getDone:
			early = true
		case <-time.After(20 * time.Millisecond):
		}
		a.sec.mu.Lock()
		a.sec.delGate = nil
		a.sec.mu.Unlock()
		close(gate)
		<-delDone
		<-getDone
		step("Delete(%d) held inside the secondary store's Delete: %v; concurrent Get -> (%d, %v), returned while the Delete was still held: %v; Delete returned", k, inside, gv, gok, early)
		if early {
			r.Count("gets_answered_during_a_held_delete", 1)
		}
		if v, ok := get(); ok && !(a.loading() && v >= 9_000_000) {
			fail("stale-read/get-after-delete/promoted-during-the-delete", fmt.Sprintf("Get returned %d after Delete had completed (a concurrent Get had promoted the key while the Delete was between the two tiers)", v))
		}
	case "update-while-demoted":
		a.set(k, v1, 1, 0)
		step("Set(%d, %d)", k, v1)
		settled = demote()
		a.set(k, v2, 1, 0)
		step("Set(%d, %d)  (old copy still in the secondary tier)", k, v2)
		if v, ok := get(); ok {
			stale(v, v2, "stale-read/get-after-overwrite/updated-while-demoted")
		}
		settled = demote() && settled
		if v, ok := get(); ok {
			stale(v, v2, "stale-read/get-after-overwrite/updated-while-demoted")
		}
	case "ttl-less-value-survives-demotion":
		a.set(k, v1, 1, 0)
		step("Set(%d, %d) without TTL", k, v1)
		settled = demote()
		l0 := loads.Load()
		v, ok := get()
		if settled && (!ok || v != v1) {
			key := "demoted-value-not-retrievable/no-ttl"
			if a.loading() && loads.Load() > l0 {
				key += "/reloaded-instead"
			}
			fail(key, fmt.Sprintf("a value stored without TTL and demoted to the secondary tier came back as (%d,%v), stored %d", v, ok, v1))
		}
	}
	if !settled {
		r.Inconclusive(1)
	}
	r.Eval(1)
	r.Count("scripted_scenarios", 1)
	r.Count("secondary_calls_logged", int64(len(a.sec.log())))
	r.Distinct("script/" + kind + "/" + name)
	if idx == 0 {
		r.Sample(6, sc)
	}
}

func tailLog[K comparable, V any](l []secCall[K, V], n int) []string {
	if len(l) > n {
		l = l[len(l)-n:]
	}
	out := make([]string, 0, len(l))
	for _, c := range l {
		out = append(out, fmt.Sprintf("%s(%v) val=%v expire=%d found=%v err=%v [%d,%d]", c.Op, c.Key, c.Val, c.Expire, c.Found, c.Err, c.T0, c.T1))
	}
	return out
}

// ---- generated histories

type c14Cfg struct {
	Kind    string  `json:"cache"`
	MaxSize int64   `json:"maxsize"`
	Clients int     `json:"clients"`
	Ops     int     `json:"ops_per_client"`
	Keys    int     `json:"keys"`
	Prob    float32 `json:"admission_probability"`
	Workers int     `json:"workers"`
	FailPct int     `json:"secondary_failure_percent"`
	Slow    bool    `json:"slow_secondary"`
}

func c14History(r *Run, idx int) {
	rng := r.Rng(int64(14500 + idx))
	cfg := c14Cfg{Kind: []string{"hybrid", "hybrid-loading"}[idx%2], MaxSize: []int64{2, 4, 16}[rng.Intn(3)], Clients: []int{3, 4, 8}[rng.Intn(3)], Ops: 120 + rng.Intn(200),
		Keys: 3 + rng.Intn(8), Prob: []float32{0, 0.5, 1, 1}[rng.Intn(4)], Workers: []int{1, 2, 8}[rng.Intn(3)], FailPct: []int{0, 0, 10}[rng.Intn(3)], Slow: rng.Intn(4) == 0}
	if r.Args["healthy"] != "" {
		cfg.Prob, cfg.FailPct = 1, 0
	}
	bar := &secBarrier{}
	internal.VerifSetHook(bar.hook)
	defer internal.VerifSetHook(nil)
	a, err := newAnyCache(cfg.Kind, anyOpts{MaxSize: cfg.MaxSize, KeepLog: true, Workers: cfg.Workers, Prob: cfg.Prob, ProbSet: true,
		Loader: func(ctx context.Context, k int) (theine.Loaded[int64], error) {
			tok := ctx.Value(tokKeyT{}).(*loadTok)
			n := loadSeq.Add(1)
			v := int64(1)<<62 | n<<8 | int64(k&0xff)
			tok.loaded, tok.val = true, v
			return theine.Loaded[int64]{Value: v, Cost: 1}, nil
		}})
	if err != nil {
		r.Broken("build: %v", err)
		return
	}
	defer a.store().Close()
	st := a.store()
	if cfg.FailPct > 0 {
		frng := rand.New(rand.NewSource(rng.Int63()))
		a.sec.fail = func(op string, n int64) bool { return frng.Intn(100) < cfg.FailPct }
	}
	a.sec.slow.Store(cfg.Slow)
	logs := make([][]hop, cfg.Clients+1)
	var wg, clients sync.WaitGroup
	start := make(chan struct{})
	var stop atomic.Bool
	for cl := 0; cl < cfg.Clients; cl++ {
		wr := rand.New(rand.NewSource(rng.Int63()))
		wg.Add(1)
		clients.Add(1)
		go func(cl int) {
			defer wg.Done()
			defer clients.Done()
			lg := make([]hop, 0, cfg.Ops)
			<-start
			for i := 0; i < cfg.Ops; i++ {
				k := wr.Intn(cfg.Keys)
				switch x := wr.Intn(100); {
				case x < 30:
					v := int64(cl+1)<<40 | int64(i+1)
					t0 := tick()
					ok := a.set(k, v, 1, 0)
					t1 := tick()
					kind := opSet
					if !ok {
						kind = opSetFalse
					}
					lg = append(lg, hop{Client: cl, Kind: kind, Key: k, Val: v, Call: t0, Ret: t1})
				case x < 45:
					t0 := tick()
					err := a.del(k)
					t1 := tick()
					if err == nil {
						lg = append(lg, hop{Client: cl, Kind: opDelete, Key: k, Call: t0, Ret: t1})
					}
				default:
					tok := &loadTok{}
					t0 := tick()
					v, ok, err := a.get(context.WithValue(context.Background(), tokKeyT{}, tok), k)
					t1 := tick()
					switch {
					case err != nil:
						// a failed secondary call: no information
					case !ok:
						lg = append(lg, hop{Client: cl, Kind: opGetMiss, Key: k, Call: t0, Ret: t1})
					case tok.loaded:
						lg = append(lg, hop{Client: cl, Kind: opLoad, Key: k, Val: v, Call: t0, Ret: t1})
					case a.loading():
						lg = append(lg, hop{Client: cl, Kind: opShared, Key: k, Val: v, Call: t0, Ret: t1})
					default:
						lg = append(lg, hop{Client: cl, Kind: opGetHit, Key: k, Val: v, Call: t0, Ret: t1})
					}
				}
				if cfg.Slow && wr.Intn(8) == 0 {
					time.Sleep(20 * time.Microsecond)
				}
			}
			logs[cl] = lg
		}(cl)
	}
	// the demoter: forces keys across the tiers all the time
	wg.Add(1)
	go func() {
		defer wg.Done()
		wr := rand.New(rand.NewSource(rng.Int63()))
		<-start
		for !stop.Load() {
			if r.Args["nodemoter"] != "" {
				time.Sleep(200 * time.Microsecond)
				continue
			}
			st.VerifEvict(wr.Intn(cfg.Keys))
			time.Sleep(time.Duration(5+wr.Intn(40)) * time.Microsecond)
		}
	}()
	close(start)
	// wait for the clients, then stop the demoter
	clients.Wait()
	stop.Store(true)
	wg.Wait()
	var all []hop
	for _, lg := range logs {
		all = append(all, lg...)
	}
	seclog := a.sec.log()
	label := fmt.Sprintf("history %d (%s M=%d p=%.1f workers=%d fail=%d%%, %d clients)", idx, cfg.Kind, cfg.MaxSize, cfg.Prob, cfg.Workers, cfg.FailPct, cfg.Clients)
	byKey := splitByKey(all)
	keys := make([]int, 0, len(byKey))
	for k := range byKey {
		keys = append(keys, k)
	}
	sort.Ints(keys)
	bothTiers := false
	for _, c := range seclog {
		if c.Op == "get" && c.Found {
			bothTiers = true
		}
	}
	for _, k := range keys {
		ops := byKey[k]
		res := checkKeyWith(hybridModel, ops, 30*time.Second)
		r.Count("key_histories_checked", 1)
		switch res {
		case porcupine.Unknown:
			r.Inconclusive(1)
		case porcupine.Illegal:
			core := shrinkWith(hybridModel, ops)
			key, what := classify(core)
			// attribute: did the secondary store hand out the stale value inside the offending read?
			from := "memory-tier"
			for _, o := range core {
				if !o.isRead() {
					continue
				}
				for _, c := range seclog {
					if c.Op == "get" && c.Found && c.Key == k && c.Val == o.Val && c.T0 >= o.Call && c.T1 <= o.Ret {
						from = "secondary-tier"
					}
				}
			}
			// The open finding, identified from the secondary store's own log. A Set invalidates the key's
			// copy in the secondary store; if that Delete FAILS (the store returned an error) the older copy
			// survives, and once the newer value has left memory the store hands the older one out (directly,
			// or by promotion into memory where other Gets read it). Signature: after the newer value was
			// established (its Set returned or a completed read returned it) the store handed the older value
			// to some Get of this key, the newer value had not been written to the store before that, AND the
			// log shows a failed Delete of this key since the newer write was invoked. Without such a failed
			// Delete the stale hand-out is a violation.
			{
				explained := false
				for _, rd := range core {
					if !rd.isRead() {
						continue
					}
					for _, w := range core {
						if !w.isWrite() || w.Val == rd.Val {
							continue
						}
						est := w.Ret
						for _, o := range core {
							if o.isRead() && o.Val == w.Val && o.Ret < est {
								est = o.Ret
							}
						}
						if est >= rd.Call {
							continue
						}
						for _, g := range seclog {
							// the hand-out may fall inside the newer Set (after its refused invalidation, before its
							// return): legal for the Get that received it, but it puts the older value back into memory,
							// from where later reads are served
							if g.Op != "get" || !g.Found || g.Key != k || g.Val != rd.Val || g.T0 < w.Call || g.T0 > rd.Ret {
								continue
							}
							reached, failedDelete := false, false
							for _, c := range seclog {
								if c.Key != k {
									continue
								}
								if c.Op == "set" && !c.Err && c.Val == w.Val && c.T1 < g.T0 {
									reached = true
								}
								if c.Op == "delete" && c.Err && c.T0 >= w.Call && c.T1 <= g.T0 {
									failedDelete = true
								}
							}
							if !reached && failedDelete {
								explained = true
							}
						}
					}
				}
				if explained {
					key = "stale-read/after-overwrite/older-copy-handed-out-by-secondary-store/its-invalidation-by-the-set-failed"
					from = ""
				}
			}
			if from != "" {
				key += "/answered-from-" + from
			}
			var keyLog []secCall[int, int64]
			for _, c := range seclog {
				if c.Key == k {
					keyLog = append(keyLog, c)
				}
			}
			r.Violate(key, fmt.Sprintf("%s: key %d is not linearizable: %s; core: %v", label, k, what, hopStrings(core)),
				map[string]any{"config": cfg, "key": k, "core": core, "core_text": hopStrings(core), "secondary_store_calls_for_the_key": tailLog(keyLog, 60), "client_ops_for_the_key": hopStrings(ops)})
		}
	}
	r.Eval(1)
	r.Count("history_ops", int64(len(all)))
	r.Count("secondary_calls_logged", int64(len(seclog)))
	if bothTiers {
		r.Count("histories_answered_from_both_tiers", 1)
		r.DistinctHash(hashStr(fmt.Sprintf("%v|%d|%d", cfg, len(all), len(seclog))))
	}
	if idx < 2 {
		ex := all
		if len(ex) > 10 {
			ex = ex[:10]
		}
		r.Sample(8, map[string]any{"config": cfg, "ops": len(all), "secondary_calls": len(seclog), "first_ops": hopStrings(ex)})
	}
}

func runC14(r *Run) {
	r.Rule("case = one scripted life of a single key (c15.go lifeScript: Set / loader / forced eviction / deadline passing under virtual time in either tier with the cached clock refreshed or lagging / Delete; a Get answered without a loader run must return the live value), or one scripted tier-crossing scenario (forced demotion with the package's own eviction event, awaited through the hand-off hooks) or one generated concurrent history on a hybrid / hybrid-loading cache with a demoter goroutine forcing keys across the tiers, admission probability 0/0.5/1, 1-8 workers, failing and slow secondary calls. Non-trivial = a history in which the secondary tier answered at least one Get (distinct by configuration and sizes), or a scripted scenario (distinct by name and cache kind)")
	r.Assume("forced demotion uses the package's own EVICTE event (same removeEntry path as policy evictions)",
		"a Get that returned an error (injected secondary failure) carries no information and is not part of the history")
	ns := r.Pick(8, 160)
	for i := 0; i < ns; i++ {
		if i%r.NShards == r.Shard {
			c14Scripted(r, i)
		}
	}
	nl := r.Pick(400, 20000)
	for i := 0; i < nl; i++ {
		if i%r.NShards == r.Shard {
			lifeScript(r, i, "C14")
		}
	}
	if only := mustAtoi(r.Args["only"], -1); only >= 0 { // debugging aid: one history, repeated
		for i := 0; i < mustAtoi(r.Args["reps"], 1); i++ {
			c14History(r, only)
		}
		return
	}
	nh := r.Pick(160, 8000)
	for i := 0; i < nh; i++ {
		if i%r.NShards == r.Shard {
			c14History(r, i)
		}
	}
}

func classifyIsOverwrite(key string) bool {
	return strings.Contains(key, "-after-overwrite")
}
