package main

import (
	"bytes"
	"context"
	"fmt"
	"math/rand"
	"reflect"
	"strings"
	"sync"
	"sync/atomic"
	"time"

	theine "github.com/Yiling-J/theine-go"
	"github.com/Yiling-J/theine-go/internal"
)

// C11 — SaveCache / LoadCache round trip restores the cache faithfully.
//
// Events: white-box snapshots (per region, MRU to LRU: key, value, cost,
// deadline; capacities) and per-key frequency estimates of the cache that is
// saved and of the cache the stream is loaded into; the quiescent invariant
// walker of C02 on the loaded cache.
// Oracle.
//  same MaxSize: every region of the loaded cache equals the saved region
//   element by element in order (key, value, cost, wall-clock deadline), minus
//   the entries whose deadline had passed when the stream was loaded; the
//   loaded estimate of every key is >= min(15, saved estimate); invariants hold.
//  smaller MaxSize: every loaded region is a prefix (from the MRU end) of the
//   saved region; total cost <= new MaxSize; invariants hold.
//  larger MaxSize: as "smaller" (the property states full restoration for the same
//   MaxSize only).
// "Elapsed time between save and load" d is produced by moving the saver's
// clock origin back by d just before saving: the loader adopts that origin, so
// it believes d has passed since the entries were written.

func init() { registry["C11"] = runC11 }

type c11Cfg struct {
	Types     string  `json:"key_value_types"`
	MaxSize   int     `json:"maxsize"`
	Target    string  `json:"target_size"`
	NewSize   int     `json:"new_maxsize"`
	Costs     string  `json:"costs"`
	TTLs      string  `json:"ttls"`
	Workload  string  `json:"prior_use"`
	Ops       int     `json:"ops"`
	ElapsedS  float64 `json:"elapsed_between_save_and_load_s"`
	ElapsedCl string  `json:"elapsed_class"`
	Shrink    bool    `json:"population_shrunk_survivors_hot,omitempty"`
	// the receiving cache was built before the saving one (and then left idle)
	TargetFirst bool `json:"receiving_cache_built_first,omitempty"`
}

type c11Ent struct {
	Key      any   `json:"key"`
	Val      any   `json:"-"`
	Cost     int64 `json:"cost"`
	Deadline int64 `json:"deadline"` // wall clock, 0 = none
	Est      uint  `json:"estimate"`
}

type c11Regions struct {
	Window, Protected, Probation []c11Ent
	WinCap, ProtCap              uint
}

func c11Snap[K comparable, V any](st *internal.Store[K, V], withEst bool) (c11Regions, internal.VerifSnapshot[K, V]) {
	sn := st.VerifSnapshot()
	start := st.VerifClockStartNano()
	conv := func(l internal.VerifListState[K, V]) []c11Ent {
		out := make([]c11Ent, 0, len(l.Entries))
		for _, e := range l.Entries {
			d := int64(0)
			if e.Expire != 0 {
				d = start + e.Expire
			}
			ce := c11Ent{Key: e.Key, Val: e.Value, Cost: e.Weight, Deadline: d}
			if withEst {
				ce.Est = st.VerifEstimate(e.Key)
			}
			out = append(out, ce)
		}
		return out
	}
	return c11Regions{Window: conv(sn.Window), Protected: conv(sn.Protected), Probation: conv(sn.Probation),
		WinCap: sn.Window.Capacity, ProtCap: sn.Protected.Capacity}, sn
}

// values are compared through their printed form: gob restores an empty slice as nil,
// which is the same value for every purpose of the property
func c11Same(a, b c11Ent) bool {
	return reflect.DeepEqual(a.Key, b.Key) && fmt.Sprintf("%v", a.Val) == fmt.Sprintf("%v", b.Val) && a.Cost == b.Cost && a.Deadline == b.Deadline
}

func c11Desc(e c11Ent) string {
	v := fmt.Sprint(e.Val)
	if len(v) > 20 {
		v = v[:20] + "…"
	}
	return fmt.Sprintf("{key %v value %s cost %d deadline %d}", e.Key, v, e.Cost, e.Deadline)
}

// c11RoundTrip runs one round trip for one key/value instantiation.
func c11RoundTrip[K comparable, V any](r *Run, idx int, cfg c11Cfg, mkKey func(i int) K, mkVal func(i int, rng *rand.Rand) V, costOf func(v V) int64) {
	rng := r.Rng(int64(11000 + idx))
	// every other round trip the receiving cache is the older of the two: it is built before the saving cache and
	// has then been idle for a while (0 s / 3 s / 2 h of its own clock). Saved deadlines are relative to the saving
	// cache's clock origin, so the load has to adopt that origin whichever of the two caches was built first.
	buildTarget := func() (*theine.Cache[K, V], error) {
		nb := theine.NewBuilder[K, V](int64(cfg.NewSize))
		if costOf != nil {
			nb = nb.Cost(costOf)
		}
		return nb.Build()
	}
	var nc *theine.Cache[K, V]
	if cfg.TargetFirst {
		var err error
		if nc, err = buildTarget(); err != nil {
			r.Broken("build: %v", err)
			return
		}
		defer nc.Close()
		if d := []time.Duration{0, 3 * time.Second, 2 * time.Hour}[idx/2%3]; d > 0 {
			nc.VerifStore().VerifShiftClock(d, true)
			nc.VerifStore().VerifTick()
		}
		r.Count("round_trips_into_a_cache_built_before_the_saving_cache", 1)
	}
	b := theine.NewBuilder[K, V](int64(cfg.MaxSize))
	if costOf != nil {
		b = b.Cost(costOf)
	}
	c, err := b.Build()
	if err != nil {
		r.Broken("build: %v", err)
		return
	}
	defer c.Close()
	st := c.VerifStore()
	universe := cfg.MaxSize * 3
	ttlOf := func() time.Duration {
		switch cfg.TTLs {
		case "none":
			return 0
		case "all-levels":
			switch rng.Intn(7) {
			case 0:
				return 0
			case 1:
				return time.Duration(5+rng.Intn(50))*time.Second + 500*time.Millisecond
			case 2:
				return time.Duration(70+rng.Intn(600))*time.Second + 500*time.Millisecond
			case 3:
				return time.Duration(2+rng.Intn(20))*time.Hour + 500*time.Millisecond
			case 4:
				return time.Duration(2+rng.Intn(5))*24*time.Hour + 500*time.Millisecond
			default:
				return time.Duration(10+rng.Intn(40))*24*time.Hour + 500*time.Millisecond
			}
		}
		if rng.Intn(3) == 0 {
			return time.Duration(30+rng.Intn(3000))*time.Second + 500*time.Millisecond
		}
		return 0
	}
	// ---- prior use
	hot := cfg.MaxSize / 3
	for i := 0; i < cfg.Ops; i++ {
		var k int
		switch cfg.Workload {
		case "recency": // recently written keys are read again soon: pushes the window up
			k = (i / 3) % universe
		case "frequency":
			if rng.Intn(4) != 0 {
				k = rng.Intn(hot + 1)
			} else {
				k = hot + 1 + rng.Intn(universe)
			}
		case "phases":
			if (i/(cfg.Ops/6+1))%2 == 0 {
				k = (i / 2) % universe
			} else if rng.Intn(4) != 0 {
				k = rng.Intn(hot + 1)
			} else {
				k = rng.Intn(universe)
			}
		default:
			k = rng.Intn(universe)
		}
		if _, ok := c.Get(mkKey(k)); !ok || rng.Intn(10) == 0 {
			c.SetWithTTL(mkKey(k), mkVal(k, rng), 0, ttlOf())
		}
		if rng.Intn(50) == 0 {
			c.Delete(mkKey(rng.Intn(universe)))
		}
	}
	if cfg.Shrink {
		// a population that shrank while the survivors stayed hot: every resident key is read until its frequency
		// saturates, then most keys are deleted - the saved frequencies then add up to more than one aging period
		// of a sketch sized for the survivors
		c.Wait()
		var ks []K
		c.Range(func(k K, _ V) bool { ks = append(ks, k); return true })
		var keep []K
		for i, k := range ks {
			if i%8 != 0 {
				c.Delete(k)
			} else {
				keep = append(keep, k)
			}
		}
		c.Wait()
		for rep := 0; rep < 30; rep++ {
			for _, k := range keep {
				c.Get(k)
			}
		}
	}
	c.Wait()
	// ---- elapsed time, reference snapshot, save
	elapsed := time.Duration(cfg.ElapsedS * float64(time.Second))
	if elapsed > 0 {
		st.VerifShiftClock(elapsed, true)
	}
	ref, refSn := c11Snap(st, true)
	nowAtSave := st.VerifClockStartNano() + st.VerifNowNano()
	var buf bytes.Buffer
	if err := c.SaveCache(3, &buf); err != nil {
		r.Violate("savecache-failed", fmt.Sprintf("round %d: SaveCache returned %v", idx, err), map[string]any{"config": cfg})
		return
	}
	after, _ := c11Snap(st, false)
	if len(after.Window) != len(ref.Window) || len(after.Protected) != len(ref.Protected) || len(after.Probation) != len(ref.Probation) {
		r.Inconclusive(1) // a maintenance tick reclaimed entries between the reference snapshot and the save
		return
	}
	// ---- load
	if nc == nil {
		if nc, err = buildTarget(); err != nil {
			r.Broken("build: %v", err)
			return
		}
		defer nc.Close()
	}
	nst := nc.VerifStore()
	wit := map[string]any{"config": cfg, "round": idx, "stream_bytes": buf.Len(),
		"saved": map[string]any{"window": len(ref.Window), "protected": len(ref.Protected), "probation": len(ref.Probation), "window_capacity": ref.WinCap, "protected_capacity": ref.ProtCap}}
	fail := func(key, what string) {
		r.Violate(key, fmt.Sprintf("round %d (%s, MaxSize %d -> %d, prior use %s, elapsed %s): %s", idx, cfg.Types, cfg.MaxSize, cfg.NewSize, cfg.Workload, cfg.ElapsedCl, what), wit)
	}
	if err := nc.LoadCache(3, bytes.NewReader(buf.Bytes())); err != nil {
		fail("loadcache-failed", fmt.Sprintf("LoadCache of an undamaged stream returned %v", err))
		return
	}
	got, gotSn := c11Snap(nst, true)
	nowAtLoad := nst.VerifClockStartNano() + nst.VerifNowNano()
	wit["loaded"] = map[string]any{"window": len(got.Window), "protected": len(got.Protected), "probation": len(got.Probation), "window_capacity": got.WinCap, "protected_capacity": got.ProtCap}
	// expected survivors: deadline not passed at load time (entries whose deadline falls between the two
	// instants are undecided; deadlines carry a 0.5 s offset so that does not happen for the planned elapsed times)
	alive := func(l []c11Ent) (out []c11Ent, undecided bool) {
		for _, e := range l {
			if e.Deadline != 0 && e.Deadline < nowAtLoad {
				if e.Deadline >= nowAtSave {
					undecided = true
				}
				continue
			}
			out = append(out, e)
		}
		return
	}
	dflt, err := theine.NewBuilder[K, V](int64(cfg.MaxSize)).Build()
	if err != nil {
		r.Broken("build: %v", err)
		return
	}
	_, dfltWin := dflt.VerifStore().VerifSplit()
	dflt.Close()
	splitMoved := ref.WinCap != dfltWin
	totalSaved, totalLoaded, expired := 0, 0, 0
	var loadedCost int64
	for _, rg := range []struct {
		name        string
		saved, load []c11Ent
	}{{"window", ref.Window, got.Window}, {"protected", ref.Protected, got.Protected}, {"probation", ref.Probation, got.Probation}} {
		want, und := alive(rg.saved)
		if und {
			r.Inconclusive(1)
			return
		}
		expired += len(rg.saved) - len(want)
		totalSaved += len(want)
		totalLoaded += len(rg.load)
		for _, e := range rg.load {
			loadedCost += e.Cost
		}
		// prefix / equality in order
		n := len(rg.load)
		if n > len(want) {
			fail("loaded-more-than-saved/"+rg.name, fmt.Sprintf("%s region: %d entries loaded, only %d unexpired entries were saved", rg.name, n, len(want)))
			return
		}
		for i := 0; i < n; i++ {
			if !c11Same(rg.load[i], want[i]) {
				kind := "entry-differs"
				if reflect.DeepEqual(rg.load[i].Key, want[i].Key) {
					switch {
					case rg.load[i].Deadline != want[i].Deadline:
						kind = "deadline-differs"
					case rg.load[i].Cost != want[i].Cost:
						kind = "cost-differs"
					default:
						kind = "value-differs"
					}
				} else {
					kind = "order-differs"
				}
				fail("restored-"+kind+"/"+rg.name, fmt.Sprintf("%s region position %d (from the MRU end): saved %s, loaded %s", rg.name, i, c11Desc(want[i]), c11Desc(rg.load[i])))
				return
			}
			if wantEst := want[i].Est; rg.load[i].Est < wantEst && rg.load[i].Est < 15 {
				fail("restored-frequency-lower", fmt.Sprintf("key %v: saved frequency estimate %d, loaded %d", want[i].Key, wantEst, rg.load[i].Est))
				return
			}
		}
		// full restoration is what the property states for the same MaxSize; into a larger (or
		// smaller) cache only the prefix / capacity / consistency rules are demanded
		if cfg.NewSize == cfg.MaxSize && n < len(want) {
			key := "unexpired-entries-not-restored/" + rg.name
			if splitMoved {
				key += "/adaptive-split-had-moved"
			}
			fail(key, fmt.Sprintf("%s region: %d unexpired entries saved (region capacity %d at save time, window capacity %d), only %d restored into a cache of MaxSize %d (its %s capacity: %d)", rg.name, len(want), map[string]uint{"window": ref.WinCap, "protected": ref.ProtCap, "probation": 0}[rg.name], ref.WinCap, n, cfg.NewSize, rg.name, map[string]uint{"window": got.WinCap, "protected": got.ProtCap, "probation": 0}[rg.name]))
			return
		}
	}
	if loadedCost > int64(cfg.NewSize) {
		fail("restored-cost-over-maxsize", fmt.Sprintf("entries costing %d in total were restored into a cache of MaxSize %d", loadedCost, cfg.NewSize))
	}
	for _, is := range checkQuiescent(gotSn, nc.EstimatedSize(), true) {
		if is.Key == "resident-cost-over-maxsize" || is.Key == "policy-total-over-maxsize" {
			continue // reported above with its own key
		}
		fail("loaded-cache-inconsistent/"+is.Key, is.What)
	}
	// the adaptive split of the loaded cache: whatever was restored of it, window plus protected capacity must be
	// what a cache of this size has (the climber only ever moves capacity between the two), and the window keeps >= 1
	if fresh, err := theine.NewBuilder[K, V](int64(cfg.NewSize)).Build(); err == nil {
		p0, w0 := fresh.VerifStore().VerifSplit()
		fresh.Close()
		if got.WinCap+got.ProtCap != p0+w0 || got.WinCap < 1 {
			fail("loaded-cache-inconsistent/window-plus-protected-capacity-not-conserved", fmt.Sprintf("after the load the window capacity is %d and the protected capacity %d (sum %d); a cache of MaxSize %d has %d + %d = %d (saved cache: window %d, protected %d)",
				got.WinCap, got.ProtCap, got.WinCap+got.ProtCap, cfg.NewSize, w0, p0, w0+p0, ref.WinCap, ref.ProtCap))
		}
	}
	_ = refSn
	r.Eval(1)
	r.Count("entries_saved_unexpired", int64(totalSaved))
	r.Count("entries_restored", int64(totalLoaded))
	r.Count("entries_expired_between_save_and_load", int64(expired))
	if splitMoved {
		r.Count("round_trips_with_moved_adaptive_split", 1)
	}
	r.Distinct(fmt.Sprintf("%s/split-moved=%v/%s/%s/%s/%s/shrunk=%v", cfg.Types, splitMoved, cfg.Costs, cfg.TTLs, cfg.Target, cfg.ElapsedCl, cfg.Shrink))
	if cfg.Shrink {
		r.Count("round_trips_of_a_shrunk_hot_population", 1)
	}
	r.Sample(8, wit)
}

func maxInt(a, b int) int {
	if a > b {
		return a
	}
	return b
}

// no padding bytes: on toolchains before Go 1.24 the hasher reads the key's raw memory, and
// padded struct keys are C18's open finding - it must not leak into this check
type c11Key struct {
	B uint64
	A int32
	C int32
}
type c11Val struct {
	N    int
	S    string
	F    float64
	Blob []byte
}

// c11Kinds: the same round trip through the public SaveCache / LoadCache of each cache kind (plain, loading, hybrid,
// hybrid-loading), which all share one store but are built and wired separately: entries (unit and mixed costs,
// with and without deadlines) are stored within capacity, saved, and loaded into a new cache of the same kind and
// size; every key must then be found in memory with its value and cost - without the loader running and without a
// trip to the secondary store -, entries whose deadline passed between save and load must be gone, and the loaded
// cache must satisfy the quiescent invariant.
func c11Kinds(r *Run, idx int) {
	rng := r.Rng(int64(11900 + idx))
	kind := anyKinds[idx%len(anyKinds)]
	M := []int64{50, 300, 2000}[rng.Intn(3)]
	var loads atomic.Int64
	// every other round leaves the cost to a cost function (Set with cost 0)
	var costFn func(int64) int64
	if (idx/len(anyKinds))%2 == 1 {
		costFn = func(v int64) int64 { return v&3 + 1 }
	}
	mk := func() (*anyCache, error) {
		return newAnyCache(kind, anyOpts{MaxSize: M, Cost: costFn, Loader: func(ctx context.Context, k int) (theine.Loaded[int64], error) {
			loads.Add(1)
			return theine.Loaded[int64]{Value: -int64(k) - 1, Cost: 1}, nil
		}})
	}
	src, err := mk()
	if err != nil {
		r.Broken("build: %v", err)
		return
	}
	defer src.store().Close()
	type want struct {
		val, cost int64
		short     bool
	}
	wants := map[int]want{}
	var total int64
	for k := 0; total < M*8/10; k++ {
		w := want{val: int64(k)<<8 | int64(rng.Intn(256)), cost: int64(1 + rng.Intn(3))}
		var ttl time.Duration
		switch rng.Intn(3) {
		case 1:
			ttl, w.short = time.Duration(20+rng.Intn(30))*time.Second, true
		case 2:
			ttl = time.Duration(2+rng.Intn(48)) * time.Hour
		}
		if costFn != nil {
			w.cost = costFn(w.val)
			if !src.set(k, w.val, 0, ttl) {
				continue
			}
		} else if !src.set(k, w.val, w.cost, ttl) {
			continue
		}
		wants[k] = w
		total += w.cost
	}
	src.wait()
	src.store().VerifShiftClock(90*time.Second, true) // the short deadlines pass between save and load
	var buf bytes.Buffer
	if err := src.save(5, &buf); err != nil {
		r.Violate("savecache-failed/"+kind, fmt.Sprintf("kinds round %d: SaveCache returned %v", idx, err), map[string]any{"cache": kind})
		return
	}
	dst, err := mk()
	if err != nil {
		r.Broken("build: %v", err)
		return
	}
	defer dst.store().Close()
	if err := dst.load(5, &buf); err != nil {
		r.Violate("loadcache-failed/"+kind, fmt.Sprintf("kinds round %d: LoadCache of an undamaged stream returned %v", idx, err), map[string]any{"cache": kind})
		return
	}
	dst.wait()
	fail := func(key, what string) {
		r.Violate(key+"/"+kind, fmt.Sprintf("kinds round %d (%s cache, MaxSize %d, %d entries saved): %s", idx, kind, M, len(wants), what), map[string]any{"cache": kind, "maxsize": M})
	}
	sn := dst.store().VerifSnapshot()
	byKey := map[int]internal.VerifEntry[int, int64]{}
	for _, e := range sn.Map {
		byKey[e.Key] = e
	}
	missing, wrong, undead := 0, 0, 0
	var first string
	for k, w := range wants {
		e, ok := byKey[k]
		switch {
		case w.short && ok:
			undead++
		case !w.short && !ok:
			missing++
			if first == "" {
				first = fmt.Sprintf("key %d (value %#x, cost %d) was saved unexpired and is not in the loaded cache", k, w.val, w.cost)
			}
		case !w.short && (e.Value != w.val || e.Weight != w.cost):
			wrong++
			if first == "" {
				first = fmt.Sprintf("key %d saved as (value %#x, cost %d), loaded as (value %#x, cost %d)", k, w.val, w.cost, e.Value, e.Weight)
			}
		}
	}
	if missing > 0 {
		fail("unexpired-entries-not-restored", fmt.Sprintf("%d unexpired entries are missing after the load (first: %s)", missing, first))
	}
	if wrong > 0 {
		fail("restored-entry-differs", fmt.Sprintf("%d entries came back with another value or cost (first: %s)", wrong, first))
	}
	if undead > 0 {
		fail("expired-entry-restored", fmt.Sprintf("%d entries whose deadline had passed 40-70 s before the save were restored", undead))
	}
	for _, is := range checkQuiescent(sn, dst.store().EstimatedSize(), true) {
		fail("loaded-cache-inconsistent/"+is.Key, is.What)
	}
	// through the public read path: found in memory, no loader run, no trip to the secondary store
	l0 := loads.Load()
	var g0 int64
	if dst.sec != nil {
		g0 = dst.sec.gets.Load()
	}
	bad := 0
	for k, w := range wants {
		if w.short {
			continue
		}
		if v, ok, err := dst.get(context.Background(), k); err != nil || !ok || v != w.val {
			bad++
		}
	}
	dl := loads.Load() - l0
	var dg int64
	if dst.sec != nil {
		dg = dst.sec.gets.Load() - g0
	}
	if missing == 0 && wrong == 0 && (bad > 0 || dl > 0 || dg > 0) {
		fail("restored-entry-not-served-from-memory", fmt.Sprintf("%d restored keys were not answered with their value by Get; the loader ran %d times and the secondary store was asked %d times (want 0, 0, 0)", bad, dl, dg))
	}
	r.Eval(1)
	r.Count("kinds_round_trips", 1)
	r.Distinct(fmt.Sprintf("kinds/%s/M%d", kind, M))
}

// c11ReclaimAfterLoad: the loaded cache keeps C04's promise for the restored deadlines. A cache that has been up
// for minutes to days saves entries with TTLs on every wheel level; the loaded cache is then stepped through virtual
// time with the tick body run after each step: a restored entry whose deadline plus one finest tick lies at or
// before the tick time must no longer be resident, and each is reported EXPIRED once, not before its deadline.
func c11ReclaimAfterLoad(r *Run, idx int) {
	rng := r.Rng(int64(11800 + idx))
	src, err := theine.NewBuilder[int, int64](1000).Build()
	if err != nil {
		r.Broken("build: %v", err)
		return
	}
	defer src.Close()
	uptime := []time.Duration{3 * time.Minute, 2 * time.Hour, 3 * 24 * time.Hour, 40 * 24 * time.Hour}[rng.Intn(4)]
	src.VerifStore().VerifShiftClock(uptime, true)
	src.VerifStore().VerifRefreshClock()
	n := 80 + rng.Intn(120)
	for k := 0; k < n; k++ {
		var ttl time.Duration
		switch rng.Intn(4) {
		case 0:
			ttl = time.Duration(2+rng.Intn(55)) * time.Second
		case 1:
			ttl = time.Duration(70+rng.Intn(3000)) * time.Second
		case 2:
			ttl = time.Duration(75+rng.Intn(600)) * time.Minute
		default:
			ttl = time.Duration(40+rng.Intn(100)) * time.Hour
		}
		src.SetWithTTL(k, int64(k)+1, 1, ttl)
	}
	src.Wait()
	var buf bytes.Buffer
	if err := src.SaveCache(2, &buf); err != nil {
		r.Broken("save: %v", err)
		return
	}
	var mu sync.Mutex
	type nt struct {
		key int
		rs  theine.RemoveReason
		at  int64
	}
	var notes []nt
	var dst *theine.Cache[int, int64]
	dst, err = theine.NewBuilder[int, int64](1000).RemovalListener(func(k int, v int64, rs theine.RemoveReason) {
		mu.Lock()
		notes = append(notes, nt{k, rs, dst.VerifStore().VerifNowNano()})
		mu.Unlock()
	}).Build()
	if err != nil {
		r.Broken("build: %v", err)
		return
	}
	defer dst.Close()
	// the receiving cache may itself have been up for a while - less long or longer than the saving one: its timer
	// wheel then stands at its own uptime when the saved clock origin is adopted
	dstAge := []time.Duration{0, 0, 10 * time.Minute, 100 * 24 * time.Hour}[rng.Intn(4)]
	if dstAge > 0 {
		dst.VerifStore().VerifShiftClock(dstAge, true)
		dst.VerifStore().VerifTick()
		r.Count("reclaim_rounds_into_a_cache_that_had_been_up_for_a_while", 1)
		if dstAge > uptime {
			r.Count("reclaim_rounds_into_a_cache_older_than_the_saving_one", 1)
		}
	}
	if err := dst.LoadCache(2, &buf); err != nil {
		r.Broken("load: %v", err)
		return
	}
	st := dst.VerifStore()
	deadline := map[int]int64{}
	for _, e := range st.VerifSnapshot().Map {
		if e.Expire != 0 {
			deadline[e.Key] = e.Expire
		}
	}
	restored := len(deadline)
	fail := func(key, what string) {
		r.Violate(key+"/after-loadcache", fmt.Sprintf("reclaim round %d (saving cache up for %v, receiving cache up for %v, %d TTL entries restored): %s", idx, uptime, dstAge, restored, what), map[string]any{"round": idx, "uptime_of_the_saving_cache": uptime.String(), "uptime_of_the_receiving_cache": dstAge.String()})
	}
	consumed := 0
	late := map[int]bool{}
	for t := 0; t < 80 && len(deadline) > 0; t++ {
		gap := []time.Duration{time.Second, time.Duration(1+rng.Intn(90)) * time.Second, time.Duration(1+rng.Intn(90)) * time.Minute, time.Duration(1+rng.Intn(30)) * time.Hour}[rng.Intn(4)]
		st.VerifShiftClock(gap, true)
		st.VerifTick()
		dst.Wait()
		now := st.VerifNowNano()
		mu.Lock()
		fresh := append([]nt(nil), notes[consumed:]...)
		consumed = len(notes)
		mu.Unlock()
		for _, x := range fresh {
			d, ok := deadline[x.key]
			switch {
			case x.rs != theine.EXPIRED:
				fail("unexpected-notification", fmt.Sprintf("key %d notified as %s", x.key, reasonName(x.rs)))
			case !ok:
				fail("expired-twice-or-unknown", fmt.Sprintf("EXPIRED for key %d, which is not a live restored TTL entry", x.key))
			case x.at < d:
				fail("expired-early", fmt.Sprintf("key %d reported EXPIRED %d ns before its restored deadline", x.key, d-x.at))
			default:
				r.Count("restored_entries_expired_on_time", 1)
			}
			delete(deadline, x.key)
		}
		for k, d := range deadline {
			if d+finestTick <= now && !late[k] {
				late[k] = true
				fail("late-reclaim/restored-entry", fmt.Sprintf("key %d: restored deadline %d, still resident at tick time %d = %.1f s late (allowed: one finest tick after the deadline at the next tick)", k, d, now, float64(now-d)/1e9))
			}
		}
	}
	r.Eval(1)
	r.Count("reclaim_after_load_rounds", 1)
	r.Distinct(fmt.Sprintf("reclaim-after-load/%v/%v", uptime, dstAge))
}

// c11DeadlineRightAfterLoad: a cache that has been up for a while (its clock origin lies d back) saves entries whose
// deadlines fall a few hundred milliseconds after the load. The loaded cache adopts the saved origin; from that
// moment its clock says "d + a little", and a Get issued once the clock has passed an entry's restored deadline
// must miss - also within the first second after the load, before any maintenance tick has run in the new cache.
// Real time is used (virtual time would refresh what is being tested); timing decides only whether the window
// is reached, never the verdict: the deadline is compared with the cache's own clock read before the Get.
func c11DeadlineRightAfterLoad(r *Run, idx int) {
	rng := r.Rng(int64(11700 + idx))
	src, err := theine.NewBuilder[int, int64](1000).Build()
	if err != nil {
		r.Broken("build: %v", err)
		return
	}
	defer src.Close()
	uptime := []time.Duration{2 * time.Minute, 3 * time.Hour, 40 * 24 * time.Hour}[rng.Intn(3)]
	src.VerifStore().VerifShiftClock(uptime, true)
	src.VerifStore().VerifRefreshClock()
	n := 24
	for k := 0; k < n; k++ {
		src.SetWithTTL(k, int64(k)+1, 1, time.Duration(150+k*25)*time.Millisecond)
	}
	src.Wait()
	var buf bytes.Buffer
	if err := src.SaveCache(2, &buf); err != nil {
		r.Broken("save: %v", err)
		return
	}
	dst, err := theine.NewBuilder[int, int64](1000).Build()
	if err != nil {
		r.Broken("build: %v", err)
		return
	}
	defer dst.Close()
	// the receiving cache may itself have been up for a while - less long or longer than the saving one: its timer
	// wheel then stands at its own uptime when the saved clock origin is adopted
	dstAge := []time.Duration{0, 0, 10 * time.Minute, 100 * 24 * time.Hour}[rng.Intn(4)]
	if dstAge > 0 {
		dst.VerifStore().VerifShiftClock(dstAge, true)
		dst.VerifStore().VerifTick()
		r.Count("reclaim_rounds_into_a_cache_that_had_been_up_for_a_while", 1)
		if dstAge > uptime {
			r.Count("reclaim_rounds_into_a_cache_older_than_the_saving_one", 1)
		}
	}
	if err := dst.LoadCache(2, &buf); err != nil {
		r.Broken("load: %v", err)
		return
	}
	st := dst.VerifStore()
	deadline := map[int]int64{}
	for _, e := range st.VerifSnapshot().Map {
		deadline[e.Key] = e.Expire
	}
	served, judged, lagging := 0, 0, 0
	var first string
	for k := 0; k < n; k++ {
		d, ok := deadline[k]
		if !ok || d == 0 {
			continue
		}
		for i := 0; i < 20000 && st.VerifNowNano() < d; i++ {
			time.Sleep(100 * time.Microsecond)
		}
		now := st.VerifNowNano()
		if now < d {
			continue
		}
		lag := now - st.VerifNowCached()
		v, hit := dst.Get(k)
		judged++
		if lag > int64(500*time.Millisecond) {
			lagging++
		}
		if hit {
			served++
			if first == "" {
				first = fmt.Sprintf("Get(%d) returned %d although the cache's clock (%d) had passed the restored deadline (%d) by %.1f ms; its cached clock was %.3f s behind", k, v, now, d, float64(now-d)/1e6, float64(lag)/1e9)
			}
		}
	}
	if served > 0 {
		r.Violate("served-expired/right-after-loadcache", fmt.Sprintf("round %d (saving cache up for %v): %d of %d entries were served by Get after their restored deadline, within the first second after LoadCache (first: %s)", idx, uptime, served, judged, first),
			map[string]any{"round": idx, "uptime_of_the_saving_cache": uptime.String(), "served": served, "judged": judged})
	}
	r.Eval(1)
	r.Count("gets_after_a_restored_deadline", int64(judged))
	r.Count("of_them_with_the_cached_clock_more_than_half_a_second_behind", int64(lagging))
	r.Distinct(fmt.Sprintf("deadline-right-after-load/%v", uptime))
}

func runC11(r *Run) {
	for i := 0; i < r.Pick(8, 64); i++ {
		if i%r.NShards == r.Shard {
			c11DeadlineRightAfterLoad(r, i)
		}
	}
	for i := 0; i < r.Pick(16, 160); i++ {
		if i%r.NShards == r.Shard {
			c11ReclaimAfterLoad(r, i)
		}
	}
	r.Rule("case = one round trip: a cache filled by a generated workload (uniform / recency-biased / frequency-biased / alternating phases, so the adaptive window-protected split moves), saved with the real SaveCache after d of virtual time, loaded with the real LoadCache into a cache of the same / larger / smaller MaxSize, regions compared element by element. Non-trivial = every round trip; distinct by (types, split moved, cost mix, TTL mix, target ratio, elapsed class)")
	r.Assume("virtual time between save and load = the saver's clock origin moved back just before saving (the loader adopts it)",
		"a round in which a maintenance tick changed the saved cache between the reference snapshot and the save is discarded as inconclusive")
	nk := r.Pick(24, 480)
	for i := 0; i < nk; i++ {
		if i%r.NShards == r.Shard {
			c11Kinds(r, i)
		}
	}
	n := r.Pick(64, 2400)
	for i := 0; i < n; i++ {
		if i%r.NShards != r.Shard {
			continue
		}
		rng := r.Rng(int64(11500 + i))
		cfg := c11Cfg{MaxSize: []int{20, 100, 200, 500, 1000}[rng.Intn(5)], Costs: []string{"unit", "mixed"}[rng.Intn(2)],
			TTLs: []string{"none", "some", "all-levels"}[rng.Intn(3)], Workload: []string{"uniform", "recency", "frequency", "phases"}[rng.Intn(4)]}
		cfg.Ops = 30*cfg.MaxSize + rng.Intn(60*cfg.MaxSize)
		cfg.Shrink = rng.Intn(4) == 0
		cfg.TargetFirst = i/r.NShards%2 == 1
		cfg.Target = []string{"same", "same", "x2", "/2", "/7", "1"}[rng.Intn(6)]
		switch cfg.Target {
		case "same":
			cfg.NewSize = cfg.MaxSize
		case "x2":
			cfg.NewSize = cfg.MaxSize * 2
		case "/2":
			cfg.NewSize = maxInt(1, cfg.MaxSize/2)
		case "/7":
			cfg.NewSize = maxInt(1, cfg.MaxSize/7)
		default:
			cfg.NewSize = 1
		}
		switch rng.Intn(4) {
		case 0:
			cfg.ElapsedS, cfg.ElapsedCl = 0, "0"
		case 1:
			cfg.ElapsedS, cfg.ElapsedCl = 1, "1s"
		case 2:
			cfg.ElapsedS, cfg.ElapsedCl = float64(60+rng.Intn(100000)), "past-some-deadlines"
		default:
			cfg.ElapsedS, cfg.ElapsedCl = 70*24*3600, "past-all-deadlines"
		}
		mixed := cfg.Costs == "mixed"
		switch i % 4 {
		case 0, 1:
			cfg.Types = "int->int64"
			var cf func(int64) int64
			if mixed {
				cf = func(v int64) int64 { return v&3 + 1 }
			}
			c11RoundTrip[int, int64](r, i, cfg, func(i int) int { return i }, func(i int, rg *rand.Rand) int64 { return int64(i)<<8 | int64(rg.Intn(256)) }, cf)
		case 2:
			cfg.Types = "string->string (incl. empty key/value)"
			var cf func(string) int64
			if mixed {
				cf = func(v string) int64 { return int64(len(v)%4) + 1 }
			}
			c11RoundTrip[string, string](r, i, cfg, func(i int) string {
				if i == 0 {
					return ""
				}
				return fmt.Sprintf("key-%d", i)
			}, func(i int, rg *rand.Rand) string {
				if i%17 == 0 {
					return ""
				}
				return strings.Repeat("v", rg.Intn(40)) + fmt.Sprint(i)
			}, cf)
		default:
			cfg.Types = "struct->struct with []byte (incl. zero values)"
			var cf func(c11Val) int64
			if mixed {
				cf = func(v c11Val) int64 { return int64(v.N&3) + 1 }
			}
			c11RoundTrip[c11Key, c11Val](r, i, cfg, func(i int) c11Key {
				if i == 0 {
					return c11Key{}
				}
				return c11Key{A: int32(i), B: uint64(i) << 33, C: int32(i % 2)}
			}, func(i int, rg *rand.Rand) c11Val {
				if i%13 == 0 {
					return c11Val{}
				}
				return c11Val{N: i, S: fmt.Sprint(i), F: float64(i) / 3, Blob: bytes.Repeat([]byte{byte(i)}, rg.Intn(30))}
			}, cf)
		}
	}
	// multi-block streams with MIXED costs into smaller caches: each region is written as several 4 MiB
	// blocks, so "region closed by the first entry that does not fit" must survive block boundaries
	if r.Shard == 1%r.NShards {
		blob := strings.Repeat("y", 600<<10)
		for j, target := range []int{40, 25, 13, 7} {
			cfg := c11Cfg{Types: "int->string 600 KiB, cost 1..4 from the value (multi-block regions)", MaxSize: 80, NewSize: target, Target: fmt.Sprintf("%d of 80", target), Costs: "mixed", TTLs: "none", Workload: "frequency", Ops: 600, ElapsedS: 0, ElapsedCl: "0"}
			c11RoundTrip[int, string](r, 910000+j, cfg, func(i int) int { return i }, func(i int, rg *rand.Rand) string { return blob[:len(blob)-(i%4)] }, func(v string) int64 { return int64(len(v)%4) + 1 })
		}
	}
	// multi-block streams (>= 3 blocks of 4 MiB): 14 values of 1 MiB
	if r.Shard == 0 {
		blob := strings.Repeat("x", 1<<20)
		for j, target := range []int{14, 7} {
			cfg := c11Cfg{Types: "int->string 1 MiB (multi-block stream)", MaxSize: 14, NewSize: target, Target: map[int]string{14: "same", 7: "/2"}[target], Costs: "unit", TTLs: "some", Workload: "uniform", Ops: 200, ElapsedS: 1, ElapsedCl: "1s"}
			c11RoundTrip[int, string](r, 900000+j, cfg, func(i int) int { return i }, func(i int, rg *rand.Rand) string { return fmt.Sprintf("%06d", i) + blob }, nil)
		}
	}
}
