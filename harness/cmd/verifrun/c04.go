package main

import (
	"bytes"
	"container/heap"
	"context"
	"fmt"
	"math/rand"
	"sync"
	"sync/atomic"
	"time"

	theine "github.com/Yiling-J/theine-go"
	"github.com/Yiling-J/theine-go/internal"
)

// C04 — expired entries are reclaimed within about one tick of their deadline.
//
// Wheel level: the real TimerWheel is driven with explicit times. A model
// keeps, per entry, its current deadline; the oracle checks
//   (i)  never early:  a callback at advance(T) needs T >= D,
//   (ii) bounded late: after advance(T) returns no entry with D + 2^30 <= T
//        (one finest tick) may still be scheduled,
//   (iii) only the newest deadline counts, removed entries are never reported,
//   (iv) slot lists stay well-formed and hold exactly the scheduled entries.
// Store level: EXPIRED notifications under virtual time with the tick body run
// by the harness once per virtual second.

func init() { registry["C04"] = runC04 }

const finestTick = int64(1) << 30

type twEnt struct {
	e      *internal.Entry[int, int]
	id     int
	D      int64
	sched  bool
	behind bool // last (re)schedule happened with D <= wheel time
	gen    int
}

type twHeapItem struct {
	D   int64
	ent *twEnt
	gen int
}
type twHeap []twHeapItem

func (h twHeap) Len() int            { return len(h) }
func (h twHeap) Less(i, j int) bool  { return h[i].D < h[j].D }
func (h twHeap) Swap(i, j int)       { h[i], h[j] = h[j], h[i] }
func (h *twHeap) Push(x interface{}) { *h = append(*h, x.(twHeapItem)) }
func (h *twHeap) Pop() interface{} {
	o := *h
	x := o[len(o)-1]
	*h = o[:len(o)-1]
	return x
}

var twShifts = []uint{30, 36, 42, 47, 49}
var twBuckets = []int64{64, 64, 32, 4, 1}

func levelOfDuration(d int64) int {
	spans := []int64{1 << 36, 1 << 42, 1 << 47, 1 << 49}
	for i, s := range spans {
		if d < s {
			return i
		}
	}
	return 4
}

// pickDeadline returns a deadline relative to wheel time `now`.
func pickDeadline(rng *rand.Rand, now int64, allowPast bool) (int64, string) {
	switch x := rng.Intn(100); {
	case x < 45:
		// adjacent to a slot boundary of some level, possibly beyond a wrap-around
		lv := rng.Intn(5)
		sh := twShifts[lv]
		m := int64(1 + rng.Intn(int(twBuckets[lv])*2+2))
		d := ((now>>sh)+m)<<sh + int64(rng.Intn(3)-1)
		if d <= now {
			d = now + 1
		}
		return d, fmt.Sprintf("boundary-l%d", lv)
	case x < 85:
		// log-uniform duration 1ns .. 2^52
		bitsN := 1 + rng.Intn(52)
		d := now + 1 + rng.Int63n(int64(1)<<uint(bitsN))
		return d, fmt.Sprintf("dur-l%d", levelOfDuration(d-now))
	case x < 95 || !allowPast:
		return now + 1 + rng.Int63n(3*finestTick), "near"
	default:
		// at or before wheel time (the UPDATE path can do this when its event is applied late)
		back := rng.Int63n(200 * finestTick)
		d := now - back
		if d < 1 {
			d = 1
		}
		return d, "past"
	}
}

type c04Case struct {
	Start    int64  `json:"wheel_start_nanos"`
	Pattern  string `json:"advance_pattern"`
	Past     bool   `json:"reschedules_into_past"`
	Entries  int    `json:"entries"`
	Advances int    `json:"advances"`
	Expired  int    `json:"expired_reported"`
	Cascades int    `json:"cascades_observed"`
}

func c04WheelCase(r *Run, idx int, rng *rand.Rand, start int64, pattern string, allowPast bool, nEntries, nAdv int) {
	w := internal.VerifNewWheel[int, int](start)
	now := start
	var ents []*twEnt
	h := &twHeap{}
	cs := c04Case{Start: start, Pattern: pattern, Past: allowPast}
	var trace []string
	note := func(f string, a ...any) {
		if len(trace) > 3000 {
			trace = trace[1000:]
		}
		trace = append(trace, fmt.Sprintf(f, a...))
	}
	bad := false
	fail := func(key, what string) {
		bad = true
		t := trace
		if len(t) > 80 {
			t = t[len(t)-80:]
		}
		r.Violate(key, what, map[string]any{"case": cs, "case_index": idx, "wheel_time": now, "last_events": t})
	}
	schedule := func(te *twEnt, D int64, why string) {
		te.D = D
		te.gen++
		te.behind = D <= now
		w.SetExpire(te.e, D)
		w.Schedule(te.e)
		te.sched = true
		// lateness is measured from max(deadline, time the wheel learned about it)
		due := D
		if due < now {
			due = now
		}
		heap.Push(h, twHeapItem{D: due, ent: te, gen: te.gen})
		note("%s id=%d D=%d (now%+d) behind=%v", why, te.id, D, D-now, te.behind)
	}
	byPtr := map[uintptr]*twEnt{}
	levelSeen := map[string]bool{}
	for adv := 0; adv < nAdv && !bad; adv++ {
		// a few operations between two advances
		nops := rng.Intn(1 + 2*nEntries/nAdv + 2)
		for k := 0; k < nops && !bad; k++ {
			x := rng.Intn(100)
			switch {
			case x < 50 && len(ents) < nEntries:
				te := &twEnt{id: len(ents)}
				D, cls := pickDeadline(rng, now, false)
				te.e = internal.NewEntry[int, int](te.id, te.id, 1, D)
				ents = append(ents, te)
				byPtr[internal.VerifEntryPtr(te.e)] = te
				levelSeen[cls] = true
				schedule(te, D, "schedule")
			case x < 85 && len(ents) > 0:
				te := ents[rng.Intn(len(ents))]
				if !te.sched {
					continue
				}
				D, cls := pickDeadline(rng, now, allowPast)
				levelSeen["re-"+cls] = true
				schedule(te, D, "reschedule")
			case len(ents) > 0:
				te := ents[rng.Intn(len(ents))]
				if !te.sched {
					continue
				}
				w.Deschedule(te.e)
				te.sched = false
				te.gen++
				note("remove id=%d", te.id)
			}
		}
		// advance
		var gap int64
		switch pattern {
		case "second":
			gap = int64(time.Second)
		case "irregular":
			gap = int64(time.Millisecond) + rng.Int63n(int64(10*time.Minute))
			if rng.Intn(3) == 0 {
				gap = int64(time.Millisecond) + rng.Int63n(int64(3*time.Second))
			}
		case "jumps":
			lv := rng.Intn(5)
			span := (int64(1) << twShifts[lv]) * twBuckets[lv]
			gap = span*int64(1+rng.Intn(3)) + rng.Int63n(span)
			if rng.Intn(2) == 0 {
				gap = int64(time.Second) + rng.Int63n(int64(time.Hour))
			}
		}
		now += gap
		T := now
		reported := 0
		func() {
			defer func() {
				if p := recover(); p != nil {
					fail("panic-in-timerwheel", fmt.Sprintf("advance(%d) panicked: %v", T, p))
				}
			}()
			w.Advance(T, func(e *internal.Entry[int, int]) {
				te := byPtr[internal.VerifEntryPtr(e)]
				reported++
				if te == nil {
					fail("unknown-entry-expired", "callback for an entry that was never scheduled")
					return
				}
				if !te.sched {
					fail("removed-entry-expired", fmt.Sprintf("entry id=%d was descheduled or already reported but is reported as expired at T=%d", te.id, T))
					return
				}
				if T < te.D {
					fail("expired-early", fmt.Sprintf("entry id=%d with deadline %d reported at advance time %d (%d ns early)", te.id, te.D, T, te.D-T))
					return
				}
				if w.Scheduled(e) {
					fail("expired-entry-still-linked", fmt.Sprintf("entry id=%d reported while still linked in the wheel", te.id))
				}
				te.sched = false
				te.gen++
			})
		}()
		cs.Advances++
		cs.Expired += reported
		note("advance T=%d (+%d) reported=%d", T, gap, reported)
		if bad {
			break
		}
		// (ii) nothing that is overdue by a full finest tick may remain scheduled
		for h.Len() > 0 && (*h)[0].D+finestTick <= T {
			it := heap.Pop(h).(twHeapItem)
			te := it.ent
			if it.gen != te.gen || !te.sched {
				continue // superseded by a re-schedule / removal / already reported
			}
			late := T - te.D
			// locate it for the witness and the cause key
			lvl, slot := -1, -1
			w.Walk(len(ents)+10, func(l, s int, e *internal.Entry[int, int]) {
				if e == te.e {
					lvl, slot = l, s
				}
			})
			key := "late-reclaim/"
			if te.behind {
				key += "scheduled-at-or-behind-wheel-time"
			} else if lvl >= 1 {
				key += "still-in-coarse-level-after-deadline"
			} else {
				key += fmt.Sprintf("level=%d", lvl)
			}
			fail(key, fmt.Sprintf("entry id=%d deadline %d still scheduled (level %d slot %d) after advance to %d: %.3f s late, finest tick is %.3f s",
				te.id, te.D, lvl, slot, T, float64(late)/1e9, float64(finestTick)/1e9))
			break
		}
		// (iv) structure: every 16th advance walk the whole wheel
		if adv%16 == 0 || adv == nAdv-1 {
			found := map[uintptr]int{}
			ok := w.Walk(len(ents)+10, func(l, s int, e *internal.Entry[int, int]) {
				found[internal.VerifEntryPtr(e)]++
				if l > 0 {
					cs.Cascades++ // entries living in coarse levels will have to cascade
				}
			})
			if !ok {
				fail("wheel-list-malformed", "a wheel slot list is not a well-formed ring")
			}
			for p, n := range found {
				te := byPtr[p]
				if n != 1 {
					fail("entry-in-several-slots", fmt.Sprintf("entry id=%d linked %d times", te.id, n))
				} else if te == nil || !te.sched {
					fail("unscheduled-entry-in-wheel", "an entry that is not scheduled is linked in a wheel slot")
				}
			}
			for _, te := range ents {
				if te.sched && found[internal.VerifEntryPtr(te.e)] == 0 {
					fail("scheduled-entry-missing", fmt.Sprintf("entry id=%d (deadline %d) is scheduled but in no slot", te.id, te.D))
					break
				}
			}
		}
	}
	cs.Entries = len(ents)
	r.Eval(1)
	r.Count("wheel_advances", int64(cs.Advances))
	r.Count("wheel_entries", int64(cs.Entries))
	r.Count("wheel_expired_reported", int64(cs.Expired))
	for cls := range levelSeen {
		r.Distinct(fmt.Sprintf("wheel/%s/%s/start%d/past=%v", pattern, cls, bitsLen(start), allowPast))
	}
	r.Sample(4, cs)
}

func bitsLen(x int64) int {
	n := 0
	for x > 0 {
		n++
		x >>= 1
	}
	return n
}

// ---------------------------------------------------------------- store level

type c04Note struct {
	key    int
	val    int64
	reason theine.RemoveReason
	at     int64 // cache-virtual now at notification
}

type c04Store struct {
	c     *theine.Cache[int, int64]
	st    *internal.Store[int, int64]
	mu    sync.Mutex
	notes []c04Note
}

func newC04Store(size int64) *c04Store {
	s := &c04Store{}
	c, err := theine.NewBuilder[int, int64](size).RemovalListener(func(k int, v int64, reason theine.RemoveReason) {
		s.mu.Lock()
		s.notes = append(s.notes, c04Note{k, v, reason, s.st.VerifNowNano()})
		s.mu.Unlock()
	}).Build()
	if err != nil {
		panic(err)
	}
	s.c = c
	s.st = c.VerifStore()
	return s
}

type c04Live struct {
	lateSeen bool
	key      int
	val      int64
	dLo, dHi int64
	cls      string
}

// c04StoreCase: TTLs on every level, TTL changes through the API, one harness
// tick per virtual second (irregular in the second half).
func c04StoreCase(r *Run, idx int, rng *rand.Rand, nKeys, nTicks int, stepMode string) {
	s := newC04Store(int64(nKeys) * 4)
	defer s.c.Close()
	st := s.st
	live := map[int]*c04Live{}
	var seq int64
	ttlClasses := []struct {
		name   string
		lo, hi time.Duration
	}{{"l0", time.Second, 60 * time.Second}, {"l1", 70 * time.Second, time.Hour}, {"l2", 75 * time.Minute, 30 * time.Hour}, {"l3", 40 * time.Hour, 6 * 24 * time.Hour}, {"l4", 7 * 24 * time.Hour, 20 * 24 * time.Hour}}
	setTTL := func(k int, why string) {
		cl := ttlClasses[rng.Intn(len(ttlClasses))]
		if stepMode == "second" && rng.Intn(3) > 0 {
			cl = ttlClasses[rng.Intn(2)]
		}
		ttl := cl.lo + time.Duration(rng.Int63n(int64(cl.hi-cl.lo)))
		seq++
		v := int64(idx)<<40 | seq
		lo := st.VerifNowNano()
		ok := s.c.SetWithTTL(k, v, 1, ttl)
		hi := st.VerifNowNano()
		if !ok {
			return
		}
		live[k] = &c04Live{key: k, val: v, dLo: lo + int64(ttl), dHi: hi + int64(ttl), cls: why + "-" + cl.name}
	}
	// a quarter of the keys start without a deadline and get one later through an update
	plain := map[int]bool{}
	for k := 0; k < nKeys; k++ {
		if rng.Intn(4) == 0 {
			seq++
			s.c.Set(k, int64(idx)<<40|seq, 1)
			plain[k] = true
			continue
		}
		setTTL(k, "set")
	}
	s.c.Wait()
	classes := map[string]bool{}
	consumed := 0
	var fail = func(key, what string, extra map[string]any) {
		extra["case_index"] = idx
		extra["step_mode"] = stepMode
		r.Violate(key, what, extra)
	}
	for t := 0; t < nTicks; t++ {
		// TTL changes through the API (both directions) and a few fresh keys
		for n := rng.Intn(4); n > 0; n-- {
			k := rng.Intn(nKeys)
			if _, ok := live[k]; ok {
				setTTL(k, "retime")
			} else if plain[k] {
				delete(plain, k)
				setTTL(k, "added") // first deadline of an entry that had none
			} else {
				setTTL(k, "set")
			}
		}
		s.c.Wait()
		var gap time.Duration
		switch stepMode {
		case "second":
			gap = time.Second
		case "coarse":
			gap = time.Duration(1+rng.Intn(3600)) * time.Second
		case "huge":
			gap = time.Duration(1+rng.Intn(48)) * time.Hour
		}
		if idx%2 == 1 && rng.Intn(3) == 0 {
			// somewhere between two ticks the cache is handed an empty snapshot taken under its own clock origin (an
			// application that re-reads its - still empty - snapshot file): nothing is restored, and the deadlines the
			// cache holds must go on being reclaimed on time. The first part of the gap passes without a tick, so the
			// wheel may be a finest tick or more behind the clock when LoadCache runs.
			part := time.Duration(rng.Int63n(int64(gap)))
			st.VerifShiftClock(part, true)
			gap -= part
			if e, err := theine.NewBuilder[int, int64](int64(nKeys) * 4).Build(); err == nil {
				est := e.VerifStore()
				est.VerifShiftClock(time.Duration(est.VerifClockStartNano()-st.VerifClockStartNano()), true)
				var buf bytes.Buffer
				if est.VerifClockStartNano() == st.VerifClockStartNano() && e.SaveCache(0, &buf) == nil && s.c.LoadCache(0, &buf) == nil {
					r.Count("store_empty_snapshots_loaded_between_ticks", 1)
				}
				e.Close()
			}
		}
		st.VerifShiftClock(gap, true)
		st.VerifTick()
		now := st.VerifNowNano()
		s.mu.Lock()
		notes := append([]c04Note(nil), s.notes[consumed:]...)
		consumed = len(s.notes)
		s.mu.Unlock()
		for _, n := range notes {
			lv := live[n.key]
			if n.reason != theine.EXPIRED {
				fail("unexpected-notification", fmt.Sprintf("key %d notified with reason %d; only expiry can remove entries in this workload", n.key, n.reason), map[string]any{"note": fmt.Sprint(n)})
				continue
			}
			if lv == nil || lv.val != n.val {
				fail("expired-stale-incarnation", fmt.Sprintf("EXPIRED for key %d value %#x which is not the current value", n.key, n.val), map[string]any{"note": fmt.Sprint(n)})
				continue
			}
			if n.at < lv.dLo {
				fail("expired-early", fmt.Sprintf("key %d (%s) reported EXPIRED at %d, earliest possible deadline %d (%d ns early)", n.key, lv.cls, n.at, lv.dLo, lv.dLo-n.at),
					map[string]any{"key": n.key, "deadline_lo": lv.dLo, "at": n.at})
			}
			classes[lv.cls] = true
			r.Count("store_expired_on_time", 1)
			delete(live, n.key)
		}
		for k, lv := range live {
			if lv.dHi+finestTick <= now && !lv.lateSeen {
				late := now - lv.dHi
				cause := "late-reclaim/store/"
				if lv.cls[:3] == "ret" {
					cause += "after-ttl-change"
				} else if lv.cls[:3] == "add" {
					cause += "ttl-added-by-update"
				} else {
					cause += "never-retimed"
				}
				fail(cause, fmt.Sprintf("key %d (%s): deadline %d, still not reclaimed at tick time %d = %.1f s late (allowed: one finest tick %.2f s after the deadline at the next tick)",
					k, lv.cls, lv.dHi, now, float64(late)/1e9, float64(finestTick)/1e9), map[string]any{"key": k, "class": lv.cls, "deadline": lv.dHi, "tick_time": now})
				lv.lateSeen = true
			}
		}
	}
	r.Eval(1)
	for c := range classes {
		r.Distinct("store/" + stepMode + "/" + c)
	}
	r.Count("store_ticks", int64(nTicks))
	r.Sample(6, map[string]any{"store_case": idx, "step_mode": stepMode, "keys": nKeys, "ticks": nTicks, "classes_expired": len(classes)})
}

// c04Kinds: the same store-level rule on each cache kind (plain, loading, hybrid, hybrid-loading; the memory tier
// large enough that nothing is evicted): deadlines set by SetWithTTL and - on loading kinds - returned by the loader,
// on every wheel level; virtual time advances in PRNG steps with the tick body run after each; an entry whose
// deadline plus one finest tick lies at or before the tick time must no longer be resident, and every entry that
// leaves is reported EXPIRED exactly once, never before its deadline.
func c04Kinds(r *Run, idx int) {
	rng := r.Rng(int64(44000 + idx))
	kind := anyKinds[idx%len(anyKinds)]
	var mu sync.Mutex
	type nt struct {
		key int
		val int64
		rs  theine.RemoveReason
		at  int64
	}
	var notes []nt
	var a *anyCache
	var loadTTL atomic.Int64
	var seq atomic.Int64
	a, err := newAnyCache(kind, anyOpts{MaxSize: 100000, Prob: 1, ProbSet: true,
		Listener: func(k int, v int64, rs theine.RemoveReason) {
			mu.Lock()
			notes = append(notes, nt{k, v, rs, a.store().VerifNowNano()})
			mu.Unlock()
		},
		Loader: func(ctx context.Context, k int) (theine.Loaded[int64], error) {
			return theine.Loaded[int64]{Value: int64(idx)<<40 | 1<<39 | seq.Add(1), Cost: 1, TTL: time.Duration(loadTTL.Load())}, nil
		}})
	if err != nil {
		r.Broken("build: %v", err)
		return
	}
	defer a.store().Close()
	st := a.store()
	type lv struct {
		val      int64
		dLo, dHi int64
		via      string
		late     bool
	}
	live := map[int]*lv{}
	pick := func() time.Duration {
		switch rng.Intn(4) {
		case 0:
			return time.Duration(1+rng.Intn(59)) * time.Second
		case 1:
			return time.Duration(70+rng.Intn(3000)) * time.Second
		case 2:
			return time.Duration(75+rng.Intn(1200)) * time.Minute
		}
		return time.Duration(40+rng.Intn(200)) * time.Hour
	}
	N := 150 + rng.Intn(250)
	for k := 0; k < N; k++ {
		ttl := pick()
		lo := st.VerifNowNano()
		if a.loading() && k%2 == 1 {
			loadTTL.Store(int64(ttl))
			v, ok, err := a.get(context.Background(), k)
			if err != nil || !ok {
				continue
			}
			live[k] = &lv{val: v, dLo: lo + int64(ttl), dHi: st.VerifNowNano() + int64(ttl), via: "loader"}
		} else {
			v := int64(idx)<<40 | seq.Add(1)
			if !a.set(k, v, 1, ttl) {
				continue
			}
			live[k] = &lv{val: v, dLo: lo + int64(ttl), dHi: st.VerifNowNano() + int64(ttl), via: "set"}
		}
	}
	a.wait()
	fail := func(key, what string) {
		r.Violate(key+"/"+kind, fmt.Sprintf("kinds case %d (%s cache, %d TTL entries, no evictions): %s", idx, kind, N, what), map[string]any{"cache": kind, "case_index": idx})
	}
	consumed, vias := 0, map[string]bool{}
	for t := 0; t < 60 && len(live) > 0; t++ {
		gap := []time.Duration{time.Second, time.Duration(1+rng.Intn(90)) * time.Second, time.Duration(1+rng.Intn(120)) * time.Minute, time.Duration(1+rng.Intn(60)) * time.Hour}[rng.Intn(4)]
		st.VerifShiftClock(gap, true)
		st.VerifTick()
		a.wait()
		now := st.VerifNowNano()
		mu.Lock()
		fresh := append([]nt(nil), notes[consumed:]...)
		consumed = len(notes)
		mu.Unlock()
		for _, n := range fresh {
			l := live[n.key]
			switch {
			case n.rs != theine.EXPIRED:
				fail("unexpected-notification", fmt.Sprintf("key %d notified as %s; only expiry removes entries here", n.key, reasonName(n.rs)))
			case l == nil || l.val != n.val:
				fail("expired-stale-incarnation", fmt.Sprintf("EXPIRED for key %d value %#x, which is not a live value (a second report, or another incarnation)", n.key, n.val))
			case n.at < l.dLo:
				fail("expired-early", fmt.Sprintf("key %d (deadline set by the %s) reported EXPIRED %d ns before its earliest possible deadline", n.key, l.via, l.dLo-n.at))
			default:
				vias[l.via] = true
				r.Count("kinds_expired_on_time", 1)
			}
			delete(live, n.key)
		}
		for k, l := range live {
			if l.dHi+finestTick <= now && !l.late {
				l.late = true
				fail("late-reclaim/store/deadline-set-by-the-"+l.via, fmt.Sprintf("key %d: deadline %d, still resident at tick time %d = %.1f s late (allowed: one finest tick after the deadline at the next tick)", k, l.dHi, now, float64(now-l.dHi)/1e9))
			}
		}
	}
	r.Eval(1)
	r.Count("kinds_cases", 1)
	for v := range vias {
		r.Distinct("kinds/" + kind + "/" + v)
	}
}

// c04Behind: a TTL update whose event reaches the policy only after the wheel
// has moved past the new deadline (client descheduled between its map update
// and its event send — placed with hook H1).
func c04Behind(r *Run, idx int, rng *rand.Rand) {
	s := newC04Store(1000)
	defer s.c.Close()
	st := s.st
	s.c.SetWithTTL(1, 11, 1, time.Hour)
	s.c.Wait()
	parked := make(chan struct{})
	release := make(chan struct{})
	var target int64
	internal.VerifSetHook(func(id int) {
		if id == internal.VPBeforeEvent && goid() == target {
			close(parked)
			<-release
		}
	})
	defer internal.VerifSetHook(nil)
	done := make(chan struct{})
	ttl := time.Duration(1+rng.Intn(900)) * time.Millisecond
	var dHi int64
	ready := make(chan struct{})
	go func() {
		target = goid()
		close(ready)
		<-ready
		s.c.SetWithTTL(1, 22, 1, ttl)
		close(done)
	}()
	<-ready
	select {
	case <-parked:
	case <-time.After(20 * time.Second):
		r.Inconclusive(1)
		return
	}
	dHi = st.VerifNowNano() + int64(ttl)
	// the wheel moves on by several ticks while the event is still in the client's hands
	lag := time.Duration(2+rng.Intn(5)) * time.Second
	st.VerifShiftClock(lag, true)
	st.VerifTick()
	internal.VerifSetHook(nil)
	close(release)
	<-done
	s.c.Wait()
	reclaimedAt := int64(-1)
	for t := 0; t < 80 && reclaimedAt < 0; t++ {
		st.VerifShiftClock(time.Second, true)
		st.VerifTick()
		s.mu.Lock()
		for _, n := range s.notes {
			if n.key == 1 && n.reason == theine.EXPIRED {
				reclaimedAt = n.at
			}
		}
		s.mu.Unlock()
		if t == 2 && reclaimedAt < 0 {
			now := st.VerifNowNano()
			r.Violate("late-reclaim/store/ttl-update-applied-after-wheel-passed-deadline",
				fmt.Sprintf("TTL update to %v was applied %v late (client parked before its event send); 3 ticks later the entry (deadline %d, now %d) is still not reclaimed", ttl, lag, dHi, now),
				map[string]any{"ttl_ns": int64(ttl), "lag_ns": int64(lag), "deadline": dHi, "now": now})
		}
	}
	r.Eval(1)
	r.Distinct(fmt.Sprintf("store/behind/lag%d", int(lag/time.Second)))
	r.Count("store_behind_cases", 1)
}

func runC04(r *Run) {
	r.Rule("wheel case = (wheel start time, advance pattern, PRNG op sequence of schedule/re-schedule/remove) on the real TimerWheel with explicit times; store case = TTL workload on a real cache under virtual time with one harness-run tick per step. " +
		"A case is non-trivial per deadline class it actually exercised; distinct_nontrivial counts distinct (pattern, deadline class [boundary/duration level, re-schedule or not], start-time magnitude) classes that were scheduled and carried through advances")
	r.Assume("lateness bound used by the oracle: an entry must be gone after the first advance/tick at time T >= deadline + 2^30 ns (one finest tick); with one tick per second this is the ~2 s of the property",
		"store level uses virtual time (clock origin shifted while no client call is in flight)")
	starts := []int64{0, 1, finestTick - 1, 1 << 36, 1<<42 + 12345, 1 << 47, 1<<49 - 5, 1 << 50}
	patterns := []string{"second", "irregular", "jumps"}
	type job struct {
		kind    string
		start   int64
		pattern string
		past    bool
		n, adv  int
	}
	var jobs []job
	reps := r.Pick(3, 10)
	for rep := 0; rep < reps; rep++ {
		for _, st := range starts {
			for _, p := range patterns {
				n, adv := r.Pick(2500, 25000), r.Pick(1500, 8000)
				if p == "second" {
					adv = r.Pick(4500, 30000) // beyond level 1's slot size and into level 2
				}
				jobs = append(jobs, job{"wheel", st, p, false, n, adv})
				if rep == 0 || r.Thorough() {
					jobs = append(jobs, job{"wheel", st, p, true, n / 2, adv / 2})
				}
			}
		}
	}
	if r.Thorough() {
		// per-second stepping across 7 virtual days
		jobs = append(jobs, job{"wheel", 1 << 40, "second", false, 200000, 7 * 24 * 3600})
	}
	for i := 0; i < r.Pick(15, 60); i++ {
		jobs = append(jobs, job{kind: "store", pattern: []string{"second", "coarse", "huge"}[i%3], n: r.Pick(300, 1500), adv: r.Pick(400, 3000)})
	}
	for i := 0; i < r.Pick(10, 80); i++ {
		jobs = append(jobs, job{kind: "behind"})
	}
	// "behind" cases install a process-wide hook: run them one at a time first
	for i, j := range jobs {
		if j.kind == "behind" {
			c04Behind(r, i, r.Rng(int64(i)))
		}
	}
	// an entry whose TTL is renewed while its expiry stands between the wheel's decision and the re-check (hook H2)
	// must still be reclaimed within a tick of the NEW deadline (c02.go expireRecheckScenario, variant 2)
	for i := 0; i < r.Pick(2, 12); i++ {
		expireRecheckScenario(r, 2, "C04")
	}
	for i := 0; i < r.Pick(8, 80); i++ {
		c04Kinds(r, i)
	}
	parMap(len(jobs), 14, func(i int) {
		j := jobs[i]
		rng := r.Rng(int64(i))
		switch j.kind {
		case "wheel":
			c04WheelCase(r, i, rng, j.start, j.pattern, j.past, j.n, j.adv)
		case "store":
			c04StoreCase(r, i, rng, j.n, j.adv, j.pattern)
		}
	})
}
