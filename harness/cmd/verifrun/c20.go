package main

import (
	"fmt"
	"sort"
	"strings"
	"sync"
	"sync/atomic"
	"time"

	theine "github.com/Yiling-J/theine-go"
	"github.com/Yiling-J/theine-go/internal"
)

// C20 — Wait is a write barrier and always returns.
//
// Phase mode. Maintenance is stalled *inside* a batch (removal listener
// blocked on a harness gate, policy lock held), n writes of distinct new keys
// and then K Wait markers are queued behind it (all of them verifiably in the
// queue before the gate opens), so after the release the maintenance loop
// takes batches of exactly 128 events in FIFO order and the markers sit at
// known positions n+1..n+K relative to the batch boundaries. Each waiter, the
// moment its Wait returns, samples EstimatedSize(): every one of the n writes
// returned before any Wait was called, so it must already read n.
// Mixed mode. Writers alternate Set(k)/Delete(k) on keys they own in a cache
// that never evicts; before calling Wait a waiter reads how many Deletes have
// returned; when Wait returns the listener must have been called at least
// that many times.
// Termination is decided by the stable-deadlock predicate of hang.go: the
// waiter is parked in Store.Wait while the queue is empty and the maintenance
// goroutine is idle in its select (or gone) in two dumps taken apart.

func init() { registry["C20"] = runC20 }

type c20Case struct {
	Mode    string `json:"mode"`
	Preload int    `json:"writes_queued_before_markers"`
	Waiters int    `json:"waiters"`
	Writers int    `json:"writers,omitempty"`
	Rounds  int    `json:"waits_per_waiter,omitempty"`
	After   int    `json:"writes_queued_behind_the_marker,omitempty"`
}

type c20WaitObs struct {
	Waiter   int   `json:"waiter"`
	Called   int64 `json:"called"`
	Returned int64 `json:"returned"`
	Owed     int64 `json:"owed_before_call"`
	Seen     int64 `json:"seen_at_return"`
}

// waitStuck evaluates the deadlock predicate for goroutines parked in Store.Wait.
// Returns the number of stuck waiters and a description.
func c20Stuck(queueLen func() int) (int, string) {
	if queueLen() != 0 {
		return 0, ""
	}
	gs, all := dumpPair(150 * time.Millisecond)
	if queueLen() != 0 {
		return 0, ""
	}
	ms := maintenanceStatePair(gs, all)
	if ms == "busy" {
		return 0, ""
	}
	n, onChan := 0, 0
	where := ""
	for _, g := range gs {
		// a caller inside Store.Wait: parked in Wait itself or in the event send it makes. Since Wait
		// selects on the wake-up channel and the cache's cancellation, the parked state is "select"
		// (it was "chan receive" before that repair; both are accepted).
		f := g.topTheineFrame()
		if !(strings.HasSuffix(f, ").Wait") || (strings.HasSuffix(f, ").sendEvent") && g.has(").Wait("))) || !parkedState(g.State) {
			continue
		}
		n++
		if g.State == "chan receive" || g.State == "chan send" || g.State == "select" {
			onChan++
			where = g.State
		}
	}
	if onChan == 0 {
		return 0, ""
	}
	return n, fmt.Sprintf("%d goroutine(s) parked in Store.Wait (%s), write queue empty, maintenance goroutine %s, in two dumps 150 ms apart", n, where, ms)
}

func c20Phase(r *Run, cs c20Case) {
	lg := &noteLog[int, int]{}
	c, err := theine.NewBuilder[int, int](1 << 20).RemovalListener(lg.listener()).Build()
	if err != nil {
		r.Broken("build: %v", err)
		return
	}
	st := c.VerifStore()
	defer c.Close()
	// stall maintenance inside a batch
	c.Set(-1, 0, 1)
	c.Wait()
	gate := make(chan struct{})
	lg.mu.Lock()
	lg.gate = gate
	lg.mu.Unlock()
	c.Delete(-1)
	for len(lg.snapshot()) == 0 {
		time.Sleep(100 * time.Microsecond)
	}
	for st.VerifQueueLen() != 0 { // the REMOVE event has been taken
		time.Sleep(100 * time.Microsecond)
	}
	base := 0 // EstimatedSize before the preload (the deleted key is gone once the batch completes)
	for i := 0; i < cs.Preload; i++ {
		c.Set(i, i, 1)
	}
	if st.VerifQueueLen() != cs.Preload {
		r.Inconclusive(1)
		close(gate)
		return
	}
	obs := make([]c20WaitObs, cs.Waiters)
	var returned atomic.Int64
	var wg sync.WaitGroup
	for w := 0; w < cs.Waiters; w++ {
		wg.Add(1)
		go func(w int) {
			defer wg.Done()
			obs[w] = c20WaitObs{Waiter: w, Called: tick(), Owed: int64(cs.Preload)}
			c.Wait()
			obs[w].Seen = int64(c.EstimatedSize() - base)
			obs[w].Returned = tick()
			returned.Add(1)
		}(w)
	}
	// before the gate opens: at least one marker is queued behind the writes, and the queue
	// length has stopped changing (every waiter has either queued its marker, is parked on a
	// full queue, or - if the implementation serialises Wait callers - is parked behind the
	// first one). This only decides which scenario is realised, never the verdict.
	for st.VerifQueueLen() < cs.Preload+1 && st.VerifQueueLen() < st.VerifQueueCap() {
		time.Sleep(100 * time.Microsecond)
	}
	for last, same := -1, 0; same < 10; {
		time.Sleep(300 * time.Microsecond)
		if q := st.VerifQueueLen(); q == last {
			same++
		} else {
			last, same = q, 0
		}
	}
	markersQueued := st.VerifQueueLen() - cs.Preload
	r.CountMax("max_markers_queued_together", int64(markersQueued))
	// further writes queued BEHIND the marker(s): the marker is then not the last item of its
	// batch (with Preload 0 it is the first). Nothing is owed for these writes.
	for i := 0; i < cs.After && st.VerifQueueLen() < st.VerifQueueCap()-2; i++ {
		c.Set(1<<20+i, i, 1)
	}
	if cs.After > 0 {
		r.Count("cases_with_writes_queued_behind_a_marker", 1)
	}
	if markersQueued >= 2 {
		r.Count("cases_with_several_markers_queued_together", 1)
		if cs.Preload/128 == (cs.Preload+markersQueued-1)/128 {
			r.Count("cases_markers_share_a_batch", 1)
		} else {
			r.Count("cases_markers_span_batches", 1)
		}
	}
	lg.mu.Lock()
	lg.gate = nil
	lg.mu.Unlock()
	close(gate)
	// wait for all waiters or a proven deadlock
	stuckN, stuckWhat := 0, ""
	undecided := false
	for evals := 0; returned.Load() < int64(cs.Waiters); evals++ {
		time.Sleep(2 * time.Millisecond)
		if returned.Load() >= int64(cs.Waiters) {
			break
		}
		if n, what := c20Stuck(st.VerifQueueLen); n > 0 && returned.Load()+int64(n) >= int64(cs.Waiters) {
			stuckN, stuckWhat = n, what
			break
		}
		if dumpBlind.Load() {
			r.Broken("C20: goroutine dumps cannot be parsed (own goroutine not found); hang verdicts are void")
			return
		}
		if evals >= 200 { // ~30 s of predicate evaluations without a verdict either way
			undecided = true
			break
		}
	}
	if undecided {
		r.Inconclusive(1)
		r.Count("scenarios_undecided_waiters_neither_returned_nor_provably_stuck", 1)
		return
	}
	c20Judge(r, cs, obs, stuckN, stuckWhat)
	if stuckN > 0 {
		// leave the stranded goroutines behind; do not call Wait/Close on this cache again
		return
	}
	wg.Wait()
}

// c20Steal forces the only ordering under which an early return is a real
// violation. Maintenance is stalled inside a batch; then, in this order:
// n1 Deletes (A) are queued, waiter W1 queues its marker and is parked at the
// hook between its send and its receive, n2 Deletes (B) are queued, waiter W2
// calls Wait (and so reaches the receive before W1), W1 is released, the stall
// is released. B returned before W2 called Wait, so when W2's Wait returns all
// n1+n2 notifications must have been delivered - observed through a lock-free
// counter so the observation cannot queue behind the batch it is judging. With
// n1 = 127 the wake-up for the batch [A, marker1] is sent while B is unapplied.
func c20Steal(r *Run, cs c20Case) {
	n1, n2 := cs.Preload, cs.Writers // reuse the fields: A and B sizes
	var notified atomic.Int64
	gate := make(chan struct{})
	var gateOn atomic.Bool
	gate2 := make(chan struct{})
	reachedB := make(chan struct{}, 1)
	var gate2On atomic.Bool
	c, err := theine.NewBuilder[int, int](1 << 20).RemovalListener(func(k, v int, reason theine.RemoveReason) {
		if k == -1 && gateOn.Load() {
			<-gate
			return
		}
		if k == n1 && gate2On.Load() {
			// B's first notification: hold it so that "W2 returned while B is being applied" is observable
			reachedB <- struct{}{}
			<-gate2
		}
		notified.Add(1)
	}).Build()
	if err != nil {
		r.Broken("build: %v", err)
		return
	}
	st := c.VerifStore()
	defer c.Close()
	gate2On.Store(n2 > 0)
	var omu sync.Mutex
	for i := 0; i < n1+n2; i++ {
		c.Set(i, i, 1)
	}
	c.Set(-1, 0, 1)
	c.Wait()
	p := newParker(internal.VPWaitAfterSend)
	defer p.close()
	gateOn.Store(true)
	c.Delete(-1)
	for st.VerifQueueLen() != 0 {
		time.Sleep(100 * time.Microsecond)
	}
	time.Sleep(time.Millisecond) // let maintenance enter the listener (it holds the policy lock from here)
	for i := 0; i < n1; i++ {
		c.Delete(i)
	}
	obs := make([]c20WaitObs, 2)
	var returned atomic.Int64
	waiter := func(w int, owed int64) func() {
		return func() {
			called := tick()
			c.Wait()
			seen := notified.Load()
			omu.Lock()
			obs[w] = c20WaitObs{Waiter: w, Called: called, Owed: owed, Seen: seen, Returned: tick()}
			omu.Unlock()
			returned.Add(1)
		}
	}
	c1, done1 := p.goParked("W1", waiter(0, int64(n1)))
	if _, parked, err := waitParkedOrDone(c1, done1); err != nil || !parked {
		r.Inconclusive(1)
		gateOn.Store(false)
		close(gate)
		return
	}
	for i := n1; i < n1+n2; i++ {
		c.Delete(i)
	}
	done2 := make(chan struct{})
	go func() { defer close(done2); waiter(1, int64(n1+n2))() }() // not registered with the parker: passes the hook
	// W2 has queued its marker and reached the receive, or is parked behind W1 (serialised Wait): queue length stable
	for last, same := -1, 0; same < 10; {
		time.Sleep(300 * time.Microsecond)
		if q := st.VerifQueueLen(); q == last {
			same++
		} else {
			last, same = q, 0
		}
	}
	w2Queued := st.VerifQueueLen() >= n1+n2+2
	if w2Queued {
		r.Count("steal_cases_second_marker_queued_while_first_waiter_parked", 1)
	} else {
		r.Count("steal_cases_second_waiter_held_back_by_the_implementation", 1)
	}
	c1.release <- struct{}{}
	time.Sleep(time.Millisecond) // W1 reaches its receive (second in line)
	gateOn.Store(false)
	close(gate)
	if n2 > 0 {
		// maintenance reaches B's first notification and is held there; give a waiter that was
		// woken by the previous batch ample time to return and record what it saw
		select {
		case <-reachedB:
			r.Count("steal_cases_held_at_first_notification_of_second_wave", 1)
			time.Sleep(20 * time.Millisecond)
			if returned.Load() > 0 {
				r.Count("steal_cases_some_wait_returned_while_second_wave_held_(legitimate_for_the_first_waiter;_verdict_is_seen<owed)", 1)
			}
		case <-time.After(10 * time.Second):
			r.Inconclusive(1)
		}
		gate2On.Store(false)
		close(gate2)
	}
	stuckN, stuckWhat := 0, ""
	for evals := 0; returned.Load() < 2; evals++ {
		time.Sleep(2 * time.Millisecond)
		if returned.Load() >= 2 {
			break
		}
		if n, what := c20Stuck(st.VerifQueueLen); n > 0 {
			stuckN, stuckWhat = n, what
			break
		}
		if evals >= 150 {
			r.Inconclusive(1)
			return
		}
	}
	cs.Mode = "steal"
	omu.Lock()
	snap := append([]c20WaitObs(nil), obs...)
	omu.Unlock()
	c20Judge(r, cs, snap, stuckN, stuckWhat)
}

func c20Judge(r *Run, cs c20Case, obs []c20WaitObs, stuckN int, stuckWhat string) {
	r.Eval(1)
	multi := "single-waiter"
	if cs.Waiters > 1 {
		multi = "concurrent-waiters"
	}
	if stuckN > 0 {
		r.Violate("wait-never-returns/"+multi, fmt.Sprintf("%s: %d of %d concurrent Wait calls never return: %s", cs.Mode, stuckN, cs.Waiters, stuckWhat),
			map[string]any{"case": cs, "waits": obs})
	}
	early := 0
	for _, o := range obs {
		if o.Returned != 0 && o.Seen < o.Owed {
			early++
			if early == 1 {
				r.Violate("wait-returned-before-writes-applied/"+multi,
					fmt.Sprintf("%s: Wait (waiter %d of %d) returned while only %d of the %d writes that had returned before it was called were applied", cs.Mode, o.Waiter, cs.Waiters, o.Seen, o.Owed),
					map[string]any{"case": cs, "waits": obs})
			}
		}
	}
	r.Count("wait_calls_observed", int64(len(obs)))
	// position of the markers relative to batch boundaries (phase mode): which batches hold a marker
	if cs.Mode == "phase" {
		r.Distinct(fmt.Sprintf("phase/n%d/k%d/after%d", cs.Preload, cs.Waiters, cs.After))
	} else if cs.Mode == "steal" {
		r.Distinct(fmt.Sprintf("steal/a%d/b%d", cs.Preload, cs.Writers))
	} else {
		r.Distinct(fmt.Sprintf("mixed/w%d/k%d/r%d", cs.Writers, cs.Waiters, cs.Rounds))
	}
	sort.Slice(obs, func(i, j int) bool { return obs[i].Called < obs[j].Called })
	if len(obs) > 6 {
		obs = obs[:6]
	}
	r.Sample(8, map[string]any{"case": cs, "waits": obs, "stuck": stuckN})
}

func c20Mixed(r *Run, cs c20Case) {
	var notified atomic.Int64
	c, err := theine.NewBuilder[int, int](1 << 20).RemovalListener(func(k, v int, reason theine.RemoveReason) { notified.Add(1) }).Build()
	if err != nil {
		r.Broken("build: %v", err)
		return
	}
	st := c.VerifStore()
	defer c.Close()
	var deletesDone atomic.Int64
	var writersLeft atomic.Int64
	writersLeft.Store(int64(cs.Writers))
	var wwg sync.WaitGroup
	stop := make(chan struct{})
	for w := 0; w < cs.Writers; w++ {
		wwg.Add(1)
		go func(w int) {
			defer wwg.Done()
			defer writersLeft.Add(-1)
			k := w << 20
			for i := 0; ; i++ {
				select {
				case <-stop:
					return
				default:
				}
				c.Set(k+i%50, i, 1)
				c.Delete(k + i%50)
				deletesDone.Add(1) // after the Delete returned
			}
		}(w)
	}
	var mu sync.Mutex
	var obs []c20WaitObs
	var finished atomic.Int64
	var wg sync.WaitGroup
	for w := 0; w < cs.Waiters; w++ {
		wg.Add(1)
		go func(w int) {
			defer wg.Done()
			defer finished.Add(1)
			for i := 0; i < cs.Rounds; i++ {
				o := c20WaitObs{Waiter: w, Owed: deletesDone.Load(), Called: tick()}
				c.Wait()
				o.Seen = notified.Load()
				o.Returned = tick()
				mu.Lock()
				obs = append(obs, o)
				mu.Unlock()
			}
		}(w)
	}
	stuckN, stuckWhat := 0, ""
	stopped := false
	undecided := false
	idle := 0
	for evals := 0; finished.Load() < int64(cs.Waiters); evals++ {
		if dumpBlind.Load() {
			r.Broken("C20: goroutine dumps cannot be parsed (own goroutine not found); hang verdicts are void")
			undecided = true
			break
		}
		// ~30 s of predicate evaluations without progress and without a verdict either way (waiters that are still
		// getting through their Waits - 32 writers make each one slow - are not undecided, only busy; the total
		// is bounded all the same)
		if idle >= 150 || evals >= 4000 {
			undecided = true
			break
		}
		time.Sleep(3 * time.Millisecond)
		// once the waiters stop making progress, stop the writers so the deadlock predicate can be evaluated
		mu.Lock()
		n0 := len(obs)
		mu.Unlock()
		time.Sleep(20 * time.Millisecond)
		mu.Lock()
		n1 := len(obs)
		mu.Unlock()
		if n1 != n0 {
			idle = 0
		} else {
			idle++
		}
		if n1 == n0 && finished.Load() < int64(cs.Waiters) {
			if !stopped {
				close(stop)
				stopped = true
				wwg.Wait()
			}
			if n, what := c20Stuck(st.VerifQueueLen); n > 0 {
				stuckN, stuckWhat = n, what
				break
			}
		}
	}
	if !stopped {
		close(stop)
		wwg.Wait()
	}
	mu.Lock()
	all := append([]c20WaitObs(nil), obs...)
	mu.Unlock()
	if undecided {
		r.Inconclusive(1)
		r.Count("scenarios_undecided_waiters_neither_returned_nor_provably_stuck", 1)
		return
	}
	r.Count("deletes_owed_checked", deletesDone.Load())
	c20Judge(r, cs, all, stuckN, stuckWhat)
	if stuckN == 0 {
		wg.Wait()
	}
}

// c20CloseRace: "Wait returns for every caller" also when the cache is closed under them. K goroutines alternate
// Set and Wait; Close lands after a PRNG-chosen number of Waits have returned; every goroutine must come back. A
// goroutine that does not is reported only from a deadlock state: parked inside Store.Wait (on its wake-up, on the
// event send, or on the mutex that serialises Wait callers) in two dumps, with the maintenance goroutine gone.
func c20CloseRace(r *Run, idx int) {
	rng := r.Rng(int64(20700 + idx))
	K := []int{1, 2, 4, 8}[idx%4]
	c, err := theine.NewBuilder[int, int](1 << 16).Build()
	if err != nil {
		r.Broken("build: %v", err)
		return
	}
	var waits, finished atomic.Int64
	stop := make(chan struct{})
	for w := 0; w < K; w++ {
		go func(w int) {
			defer finished.Add(1)
			for i := 0; ; i++ {
				select {
				case <-stop:
					return
				default:
				}
				c.Set(w<<20|i%1000, i, 1)
				c.Wait()
				waits.Add(1)
			}
		}(w)
	}
	closeAfter := int64(1 + rng.Intn(400))
	verdict := ""
	// bounded by progress: if no Wait has returned for 300 ms the callers are asked where they are (a waiter stranded
	// before Close is a violation in its own right, and waiting for Waits that will never return only burns the budget)
	lastWaits, lastMove := int64(-1), time.Now()
	for polls := 0; waits.Load() < closeAfter && polls < 200000; polls++ {
		time.Sleep(20 * time.Microsecond)
		if w := waits.Load(); w != lastWaits {
			lastWaits, lastMove = w, time.Now()
		} else if time.Since(lastMove) > 300*time.Millisecond {
			if n, what := c20Stuck(func() int { return c.VerifStore().VerifQueueLen() }); n > 0 {
				verdict = "before Close was called: " + what
			}
			break
		}
	}
	c.Close()
	close(stop)
	if verdict != "" {
		r.Eval(1)
		r.Violate("wait-never-returns/concurrent-set-and-wait-loops", fmt.Sprintf("close-race scenario %d (%d goroutines alternating Set and Wait): %s", idx, K, verdict),
			map[string]any{"scenario": idx, "waiters": K})
		return
	}
	for evals := 0; evals < 100 && finished.Load() < int64(K); evals++ {
		time.Sleep(10 * time.Millisecond)
		if finished.Load() == int64(K) {
			break
		}
		gs, all := dumpPair(150 * time.Millisecond)
		if dumpBlind.Load() {
			r.Broken("C20: goroutine dumps cannot be parsed (own goroutine not found); hang verdicts are void")
			return
		}
		if maintenanceStatePair(gs, all) != "absent" {
			continue
		}
		n, where := 0, ""
		for _, g := range gs {
			if g.has(").Wait(") && parkedState(g.State) && g.has("main.c20CloseRace") {
				n++
				where = g.topTheineFrame() + " [" + g.State + "]"
			}
		}
		if n > 0 && finished.Load() < int64(K) {
			verdict = fmt.Sprintf("%d of %d goroutines that were calling Wait when Close ran are parked inside Store.Wait (%s) in two dumps 150 ms apart; the maintenance goroutine has exited, nobody can wake them", n, K, where)
			break
		}
	}
	r.Eval(1)
	r.Count("close_race_scenarios", 1)
	r.Count("close_race_waits_returned_before_close", waits.Load())
	r.Distinct(fmt.Sprintf("close-race/K=%d", K))
	if verdict != "" {
		r.Violate("wait-never-returns/close-while-waiting", fmt.Sprintf("close-race scenario %d (%d goroutines alternating Set and Wait, Close after %d Waits): %s", idx, K, closeAfter, verdict),
			map[string]any{"scenario": idx, "waiters": K, "close_after_waits": closeAfter})
	} else if finished.Load() < int64(K) {
		r.Inconclusive(1)
	}
}

func runC20(r *Run) {
	r.Rule("case = one scenario on a fresh cache: phase mode (maintenance stalled inside a batch, n writes then K Wait markers queued at known positions, release) or mixed mode (W writers alternating Set/Delete while K goroutines call Wait repeatedly). Non-trivial = every scenario; distinct by (mode, queued writes, waiters, writers)")
	r.Assume("phase mode: all n writes and all K markers are in the write queue before maintenance resumes (checked through the queue length), so the batch containing each marker is known",
		"mixed mode: the cache never evicts, every Delete removes a resident key, so each returned Delete owes exactly one notification")
	var cases []c20Case
	for _, k := range []int{1, 2, 3, 8, 64} {
		for _, n := range []int{0, 1, 126, 127, 128, 129, 255, 256, 1000} {
			cases = append(cases, c20Case{Mode: "phase", Preload: n, Waiters: k})
		}
	}
	for _, k := range []int{1, 2, 3, 8, 32} {
		for _, w := range []int{0, 1, 4, 32} {
			cases = append(cases, c20Case{Mode: "mixed", Waiters: k, Writers: w, Rounds: r.Pick(30, 300)})
		}
	}
	for _, k := range []int{1, 2} {
		for _, n := range []int{0, 1, 127} {
			for _, after := range []int{1, 5, 126, 300} {
				cases = append(cases, c20Case{Mode: "phase", Preload: n, Waiters: k, After: after})
			}
		}
	}
	for _, n1 := range []int{0, 1, 126, 127, 128, 255} {
		for _, n2 := range []int{1, 5, 130} {
			cases = append(cases, c20Case{Mode: "steal", Preload: n1, Writers: n2, Waiters: 2})
		}
	}
	for i := 0; i < r.Pick(4, 40); i++ {
		c20CloseRace(r, r.Shard*40+i)
	}
	for i := 0; i < r.Pick(6, 60); i++ {
		c20DeleteExpired(r, r.Shard*60+i)
	}
	reps := r.Pick(1, 10)
	for rep := 0; rep < reps; rep++ {
		for i, cs := range cases {
			if i%r.NShards != r.Shard {
				continue
			}
			switch cs.Mode {
			case "phase":
				c20Phase(r, cs)
			case "steal":
				c20Steal(r, cs)
			default:
				c20Mixed(r, cs)
			}
		}
	}
}

// c20DeleteExpired: the barrier also covers a Delete of an entry whose deadline has passed but which has not been
// reclaimed yet. Keys get a TTL of a millisecond or two; a few milliseconds later (no tick in between, usually) each
// is deleted; then Wait. On its return every key has been reported exactly once (REMOVED if the Delete took it,
// EXPIRED if a tick did) and none of them is accounted for any more.
func c20DeleteExpired(r *Run, idx int) {
	rng := r.Rng(int64(20500 + idx))
	nl := &noteLog[int, int64]{}
	c, err := theine.NewBuilder[int, int64](1000).RemovalListener(nl.listener()).Build()
	if err != nil {
		r.Broken("build: %v", err)
		return
	}
	defer c.Close()
	n := 20 + rng.Intn(60)
	perm := 10 + rng.Intn(10)
	for k := 0; k < perm; k++ {
		c.Set(100000+k, int64(k), 1) // bystanders without a deadline
	}
	for k := 0; k < n; k++ {
		c.SetWithTTL(k, int64(k)<<8|7, 1, time.Duration(500+rng.Intn(1500))*time.Microsecond)
	}
	c.Wait()
	time.Sleep(4 * time.Millisecond)
	for k := 0; k < n; k++ {
		c.Delete(k)
	}
	c.Wait()
	// observations at the return of Wait
	est := c.EstimatedSize()
	notes := nl.snapshot()
	per := map[int]int{}
	for _, nt := range notes {
		if nt.Key < 100000 {
			per[nt.Key]++
		}
	}
	missing, twice := 0, 0
	for k := 0; k < n; k++ {
		switch per[k] {
		case 0:
			missing++
		case 1:
		default:
			twice++
		}
	}
	wit := map[string]any{"round": idx, "keys": n, "bystanders": perm}
	if missing > 0 || twice > 0 {
		r.Violate("wait-returned-before-writes-applied/delete-of-an-expired-unreclaimed-entry", fmt.Sprintf("round %d: %d keys stored with a TTL of 0.5-2 ms, deleted 4 ms later, then Wait: on its return %d of them had not been reported to the removal listener and %d had been reported more than once", idx, n, missing, twice), wit)
	}
	if est != perm {
		r.Violate("wait-returned-before-writes-applied/delete-of-an-expired-unreclaimed-entry/still-accounted", fmt.Sprintf("round %d: %d keys stored with a TTL of 0.5-2 ms, deleted 4 ms later, then Wait: on its return EstimatedSize() = %d, want the %d bystanders", idx, n, est, perm), wit)
	}
	r.Eval(1)
	r.Count("deletes_of_expired_unreclaimed_entries_before_a_wait", int64(n))
	r.Distinct("delete-expired-then-wait")
}
