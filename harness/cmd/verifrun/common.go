package main

import (
	"encoding/json"
	"fmt"
	"hash/fnv"
	"math/rand"
	"os"
	"path/filepath"
	"runtime"
	"sort"
	"strings"
	"sync"
	"sync/atomic"
	"time"
)

// Violation is one observed breach of a property, with the cause key that the
// driver matches against known_findings.json.
type Violation struct {
	Key    string `json:"key"`
	What   string `json:"what"`
	Replay string `json:"replay"`
	Count  int    `json:"count"`
}

// Result is what a verifrun child hands back to the driver.
type Result struct {
	Property     string                 `json:"property"`
	Tier         string                 `json:"tier"`
	Seed         int64                  `json:"seed"`
	Evaluations  int64                  `json:"evaluations"`
	Distinct     int64                  `json:"distinct_nontrivial"`
	DistinctKeys []string               `json:"distinct_keys,omitempty"`
	Rule         string                 `json:"rule"`
	Samples      []any                  `json:"samples"`
	Counters     map[string]int64       `json:"counters"`
	Info         map[string]any         `json:"info,omitempty"`
	Violations   []*Violation           `json:"violations"`
	Inconclusive int64                  `json:"inconclusive"`
	Assumptions  []string               `json:"assumptions"`
	Exhaustive   bool                   `json:"exhaustive"`
	Broken       string                 `json:"broken,omitempty"`
	WallS        float64                `json:"wall_s"`
	extra        map[string]interface{} `json:"-"`
}

// Run carries the per-invocation context shared by all monitors.
type Run struct {
	Prop      string
	Tier      string
	Seed      int64
	Out       string
	ReplayDir string
	Replay    string
	Shard     int
	NShards   int
	Args      map[string]string

	mu        sync.Mutex
	res       Result
	distinct  map[uint64]struct{}
	violIdx   map[string]*Violation
	evals     atomic.Int64
	inconc    atomic.Int64
	start     time.Time
	exportKey bool
}

func newRun(prop string) *Run {
	r := &Run{Prop: prop, Args: map[string]string{}, distinct: map[uint64]struct{}{}, violIdx: map[string]*Violation{}, start: time.Now()}
	r.res.Property = prop
	r.res.Counters = map[string]int64{}
	r.res.Info = map[string]any{}
	return r
}

func (r *Run) Thorough() bool { return r.Tier == "thorough" }

// quickScale multiplies the quick tier's case counts per property (never beyond the thorough tier's). The
// first quick tiers were sized when every property still failed in its first cases; on the repaired tree
// most of them ran for one to six seconds, which left the tier most often run the shallowest by far. The
// factors bring each quick run to roughly 20-40 s of monitor time on an idle 16-core machine.
var quickScale = map[string]int{
	"C02": 6, "C03": 4, "C04": 8, "C05": 10, "C06": 6, "C07": 4, "C10": 6, "C11": 8,
	"C13": 4, "C14": 10, "C15": 10, "C16": 5, "C20": 10,
}

// Pick returns q (times the property's quick scale) for the quick tier and t for the thorough tier.
func (r *Run) Pick(q, t int) int {
	if r.Thorough() {
		return t
	}
	s := quickScale[r.Prop]
	if a := r.Args["qscale"]; a != "" {
		fmt.Sscan(a, &s)
	}
	if s > 1 && q*s <= t {
		return q * s
	}
	if s > 1 && q < t {
		return t
	}
	return q
}

func (r *Run) Rng(stream int64) *rand.Rand {
	return rand.New(rand.NewSource(r.Seed*1000003 + stream*7919 + int64(r.Shard)*104729 + 17))
}

// Case announces on stderr that a case is in flight (and, through the returned function, that it is over). If the
// process dies in between - a panic in the maintenance goroutine of the cache under test takes every monitor with
// it - the driver reads from the log which cases were open and with which configuration.
func (r *Run) Case(desc string) func() {
	id := caseSeq.Add(1)
	fmt.Fprintf(os.Stderr, "CASE+ %d %s\n", id, desc)
	return func() { fmt.Fprintf(os.Stderr, "CASE- %d\n", id) }
}

var caseSeq atomic.Int64

func (r *Run) Eval(n int64)         { r.evals.Add(n) }
func (r *Run) Inconclusive(n int64) { r.inconc.Add(n) }

func (r *Run) Count(name string, n int64) {
	r.mu.Lock()
	r.res.Counters[name] += n
	r.mu.Unlock()
}

func (r *Run) CountMax(name string, n int64) {
	r.mu.Lock()
	if n > r.res.Counters[name] {
		r.res.Counters[name] = n
	}
	r.mu.Unlock()
}

func (r *Run) Info(name string, v any) {
	r.mu.Lock()
	r.res.Info[name] = v
	r.mu.Unlock()
}

func hashStr(s string) uint64 {
	h := fnv.New64a()
	h.Write([]byte(s))
	return h.Sum64()
}

// Distinct records one non-trivial case by its signature.
func (r *Run) Distinct(sig string) { r.DistinctHash(hashStr(sig)) }
func (r *Run) DistinctHash(h uint64) {
	r.mu.Lock()
	r.distinct[h] = struct{}{}
	r.mu.Unlock()
}

func (r *Run) Sample(max int, v any) {
	r.mu.Lock()
	if len(r.res.Samples) < max {
		r.res.Samples = append(r.res.Samples, v)
	}
	r.mu.Unlock()
}

func (r *Run) Rule(s string)      { r.res.Rule = s }
func (r *Run) Assume(s ...string) { r.res.Assumptions = append(r.res.Assumptions, s...) }
func (r *Run) Exhaustive(b bool)  { r.res.Exhaustive = b }
func (r *Run) Broken(format string, a ...any) {
	r.mu.Lock()
	if r.res.Broken == "" {
		r.res.Broken = fmt.Sprintf(format, a...)
	}
	r.mu.Unlock()
}

var nonFile = strings.NewReplacer("/", "_", " ", "_", ">", "gt", "<", "lt", "=", "-", ":", "_", "*", "x")

// Violate records a violation with cause key `key`; the witness is written to
// the replay directory (at most 3 witness files per key).
func (r *Run) Violate(key, what string, witness any) {
	r.mu.Lock()
	defer r.mu.Unlock()
	v := r.violIdx[key]
	if v == nil {
		v = &Violation{Key: key, What: what}
		r.violIdx[key] = v
		r.res.Violations = append(r.res.Violations, v)
	}
	v.Count++
	if v.Count <= 1 {
		dir := filepath.Join(r.ReplayDir, r.Prop)
		_ = os.MkdirAll(dir, 0o755)
		name := fmt.Sprintf("%s-s%d-%d-%d.json", nonFile.Replace(key), r.Seed, r.Shard, v.Count)
		if len(name) > 150 {
			name = fmt.Sprintf("%x-s%d-%d-%d.json", hashStr(key), r.Seed, r.Shard, v.Count)
		}
		p := filepath.Join(dir, name)
		b, err := json.MarshalIndent(map[string]any{
			"property": r.Prop, "key": key, "what": what, "seed": r.Seed, "tier": r.Tier,
			"shard": r.Shard, "nshards": r.NShards, "args": r.Args, "witness": witness,
		}, "", " ")
		if err != nil {
			b = []byte(fmt.Sprintf(`{"property":%q,"key":%q,"what":%q,"witness_error":%q}`, r.Prop, key, what, err.Error()))
		}
		_ = os.WriteFile(p, b, 0o644)
		if v.Replay == "" {
			v.Replay = p
		}
	}
}

func (r *Run) NViolations() int {
	r.mu.Lock()
	defer r.mu.Unlock()
	return len(r.res.Violations)
}

func (r *Run) Finish() {
	r.mu.Lock()
	defer r.mu.Unlock()
	r.res.Tier = r.Tier
	r.res.Seed = r.Seed
	r.res.Evaluations = r.evals.Load()
	r.res.Inconclusive = r.inconc.Load()
	r.res.Distinct = int64(len(r.distinct))
	if len(r.distinct) <= 200000 {
		ks := make([]string, 0, len(r.distinct))
		for h := range r.distinct {
			ks = append(ks, fmt.Sprintf("%x", h))
		}
		sort.Strings(ks)
		r.res.DistinctKeys = ks
	}
	r.res.WallS = time.Since(r.start).Seconds()
	if r.res.Samples == nil {
		r.res.Samples = []any{}
	}
	if r.res.Violations == nil {
		r.res.Violations = []*Violation{}
	}
	b, err := json.Marshal(&r.res)
	if err != nil {
		fmt.Fprintln(os.Stderr, "marshal result:", err)
		os.Exit(3)
	}
	if r.Out == "" {
		os.Stdout.Write(b)
		os.Stdout.Write([]byte("\n"))
		return
	}
	tmp := r.Out + ".tmp"
	if err := os.WriteFile(tmp, b, 0o644); err != nil {
		fmt.Fprintln(os.Stderr, "write result:", err)
		os.Exit(3)
	}
	_ = os.Rename(tmp, r.Out)
}

// ---------------------------------------------------------------- helpers

// logical clock shared by all recorders of one process
var lclock atomic.Int64

func tick() int64 { return lclock.Add(1) }

// goid returns the current goroutine id (parsed from the stack header).
func goid() int64 {
	var buf [64]byte
	n := runtime.Stack(buf[:], false)
	// "goroutine 123 ["
	var id int64
	for i := len("goroutine "); i < n; i++ {
		c := buf[i]
		if c < '0' || c > '9' {
			break
		}
		id = id*10 + int64(c-'0')
	}
	return id
}

func allStacks() string {
	buf := make([]byte, 1<<20)
	for {
		n := runtime.Stack(buf, true)
		if n < len(buf) {
			return string(buf[:n])
		}
		buf = make([]byte, len(buf)*2)
	}
}

// parMap runs f(i) for i in [0,n) on up to `workers` goroutines.
func parMap(n, workers int, f func(i int)) {
	if workers < 1 {
		workers = 1
	}
	var next atomic.Int64
	var wg sync.WaitGroup
	for w := 0; w < workers; w++ {
		wg.Add(1)
		go func() {
			defer wg.Done()
			for {
				i := int(next.Add(1)) - 1
				if i >= n {
					return
				}
				f(i)
			}
		}()
	}
	wg.Wait()
}

func spin(n int) {
	for i := 0; i < n; i++ {
		runtime.Gosched()
	}
}

func mustAtoi(s string, def int) int {
	if s == "" {
		return def
	}
	var n int
	_, err := fmt.Sscanf(s, "%d", &n)
	if err != nil {
		return def
	}
	return n
}

func exitNow(code int) { os.Exit(code) }

func imax(a, b int) int {
	if a > b {
		return a
	}
	return b
}

func sortInts(a []int, less func(x, y int) bool) {
	sort.Slice(a, func(i, j int) bool { return less(a[i], a[j]) })
}

func imin(a, b int) int {
	if a < b {
		return a
	}
	return b
}
