package main

import (
	"errors"
	"runtime"
	"sync"
	"sync/atomic"
	"time"
)

// monSecondary is the harness's secondary store: a map guarded by a mutex that
// logs every call it receives (stamped with the process-wide logical clock), can
// be made to fail or stall per call, and never does anything behind the cache's
// back. It is the observation point for every crossing between the two tiers
// (C09 hybrid traces, C10, C14, C15).
type secRec[V any] struct {
	Val    V
	Cost   int64
	Expire int64
}

type secCall[K comparable, V any] struct {
	Op     string // "get" | "set" | "delete"
	Key    K
	Val    V
	Cost   int64
	Expire int64
	Found  bool
	Err    bool
	T0, T1 int64
}

type monSecondary[K comparable, V any] struct {
	mu    sync.Mutex
	m     map[K]secRec[V]
	calls []secCall[K, V]
	keep  bool // keep the call log

	gets, sets, deletes, getHits atomic.Int64
	asyncErrs                    atomic.Int64
	lastAsyncErr                 atomic.Value

	// fail decides per call whether it fails (called under mu with op and a per-store call counter)
	fail   func(op string, n int64) bool
	nCalls int64
	// gate, when non-nil, is received from before each Set is applied (lets a scenario hold the workers)
	setGate chan struct{}
	inSet   atomic.Int64
	stalled map[K]int // keys whose Set call is waiting on setGate (the caller holds that key's shard read lock)
	// delGate, when non-nil, is received from before each Delete is applied (a slow secondary Delete)
	delGate chan struct{}
	inDel   atomic.Int64
	// slow, when set, makes every call yield / sleep a few microseconds before it is applied
	slow atomic.Bool
}

// dawdle widens the window between a tier crossing's two halves when the store is "slow".
func (s *monSecondary[K, V]) dawdle() {
	if !s.slow.Load() {
		return
	}
	switch n := s.gets.Load() + s.sets.Load() + s.deletes.Load(); n % 4 {
	case 0:
		runtime.Gosched()
	case 1:
		time.Sleep(time.Duration(5+n%40) * time.Microsecond)
	}
}

var errSecondary = errors.New("injected secondary failure")

func newMonSecondary[K comparable, V any](keepLog bool) *monSecondary[K, V] {
	return &monSecondary[K, V]{m: map[K]secRec[V]{}, keep: keepLog}
}

func (s *monSecondary[K, V]) Get(key K) (value V, cost int64, expire int64, ok bool, err error) {
	t0 := tick()
	s.gets.Add(1)
	s.dawdle()
	s.mu.Lock()
	s.nCalls++
	if s.fail != nil && s.fail("get", s.nCalls) {
		err = errSecondary
	} else if r, found := s.m[key]; found {
		value, cost, expire, ok = r.Val, r.Cost, r.Expire, true
		s.getHits.Add(1)
	}
	if s.keep {
		s.calls = append(s.calls, secCall[K, V]{Op: "get", Key: key, Val: value, Cost: cost, Expire: expire, Found: ok, Err: err != nil, T0: t0, T1: tick()})
	}
	s.mu.Unlock()
	return
}

func (s *monSecondary[K, V]) Set(key K, value V, cost int64, expire int64) error {
	t0 := tick()
	s.sets.Add(1)
	s.inSet.Add(1)
	defer s.inSet.Add(-1)
	s.mu.Lock()
	g := s.setGate
	if g != nil {
		if s.stalled == nil {
			s.stalled = map[K]int{}
		}
		s.stalled[key]++
	}
	s.mu.Unlock()
	s.dawdle()
	if g != nil {
		<-g
		s.mu.Lock()
		if s.stalled[key]--; s.stalled[key] <= 0 {
			delete(s.stalled, key)
		}
		s.mu.Unlock()
	}
	s.mu.Lock()
	defer s.mu.Unlock()
	s.nCalls++
	var err error
	if s.fail != nil && s.fail("set", s.nCalls) {
		err = errSecondary
	} else {
		s.m[key] = secRec[V]{value, cost, expire}
	}
	if s.keep {
		s.calls = append(s.calls, secCall[K, V]{Op: "set", Key: key, Val: value, Cost: cost, Expire: expire, Err: err != nil, T0: t0, T1: tick()})
	}
	return err
}

func (s *monSecondary[K, V]) Delete(key K) error {
	t0 := tick()
	s.deletes.Add(1)
	s.dawdle()
	s.mu.Lock()
	g := s.delGate
	s.mu.Unlock()
	if g != nil {
		s.inDel.Add(1)
		<-g
		s.inDel.Add(-1)
	}
	s.mu.Lock()
	defer s.mu.Unlock()
	s.nCalls++
	var err error
	_, found := s.m[key]
	if s.fail != nil && s.fail("delete", s.nCalls) {
		err = errSecondary
	} else {
		delete(s.m, key)
	}
	if s.keep {
		s.calls = append(s.calls, secCall[K, V]{Op: "delete", Key: key, Found: found, Err: err != nil, T0: t0, T1: tick()})
	}
	return err
}

func (s *monSecondary[K, V]) HandleAsyncError(err error) {
	if err != nil {
		s.asyncErrs.Add(1)
		s.lastAsyncErr.Store(err.Error())
	}
}

func (s *monSecondary[K, V]) peek(key K) (secRec[V], bool) {
	s.mu.Lock()
	defer s.mu.Unlock()
	r, ok := s.m[key]
	return r, ok
}

func (s *monSecondary[K, V]) size() int {
	s.mu.Lock()
	defer s.mu.Unlock()
	return len(s.m)
}

func (s *monSecondary[K, V]) log() []secCall[K, V] {
	s.mu.Lock()
	defer s.mu.Unlock()
	return append([]secCall[K, V](nil), s.calls...)
}

// stalledKeys returns the keys whose Set call is currently held at the gate.
func (s *monSecondary[K, V]) stalledKeys() []K {
	s.mu.Lock()
	defer s.mu.Unlock()
	out := make([]K, 0, len(s.stalled))
	for k := range s.stalled {
		out = append(out, k)
	}
	return out
}
