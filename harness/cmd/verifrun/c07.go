package main

import (
	"fmt"
	"strings"
	"sync/atomic"
	"time"

	"github.com/Yiling-J/theine-go/internal"
)

// C07 — eviction policy state stays structurally consistent and within bounds.
//
// Monitor: a real TinyLfu (built the way TestTlfu_* build it, through the
// white-box wrapper) is driven with generated insert / access / cost-update /
// remove / forced-climb steps; after EVERY step an invariant walker inspects
// the three region lists. Non-termination is detected by a progress watchdog.

func init() { registry["C07"] = runC07 }

type c07Ent = internal.Entry[int, int]

type c07State struct {
	v        *internal.VerifTlfu[int, int]
	live     map[uintptr]*c07Ent
	capSum   uint
	capacity uint
	ops      []string
	resized  int
	evicted  int
	evByReg  [3]int
	bad      string
}

func regionOf(flags int8) int {
	n, reg := 0, -1
	if flags&internal.VerifFlagWindow != 0 {
		n++
		reg = 0
	}
	if flags&internal.VerifFlagProbation != 0 {
		n++
		reg = 1
	}
	if flags&internal.VerifFlagProtected != 0 {
		n++
		reg = 2
	}
	if n != 1 {
		return -1 - n
	}
	return reg
}

// c07Check walks the policy and returns (key, description) of the first broken invariant.
func c07Check(st internal.VerifTlfuState[int, int], live map[uintptr]*c07Ent, capSum uint, afterSizeChange bool) (string, string) {
	seen := map[uintptr]int{}
	lists := []struct {
		name string
		l    internal.VerifListState[int, int]
		flag int8
	}{{"window", st.Window, internal.VerifFlagWindow}, {"probation", st.Probation, internal.VerifFlagProbation}, {"protected", st.Protected, internal.VerifFlagProtected}}
	var total int64
	for li, L := range lists {
		var sum int64
		for _, e := range L.l.Entries {
			if prev, dup := seen[e.Ptr]; dup {
				return "entry-in-two-places", fmt.Sprintf("entry key=%d appears in %s and again in %s", e.Key, lists[prev].name, L.name)
			}
			seen[e.Ptr] = li
			sum += e.PolicyWeight
			if reg := regionOf(e.Flags); reg != li {
				return "region-flag-mismatch", fmt.Sprintf("entry key=%d is linked in %s but its flags say region %d (flags=%#x)", e.Key, L.name, reg, e.Flags)
			}
			if _, ok := live[e.Ptr]; !ok {
				return "ghost-entry-in-list", fmt.Sprintf("entry key=%d is linked in %s but was removed/evicted", e.Key, L.name)
			}
			if e.PolicyWeight < 1 {
				return "nonpositive-weight", fmt.Sprintf("entry key=%d in %s has policy weight %d", e.Key, L.name, e.PolicyWeight)
			}
		}
		if sum != L.l.Len {
			return "region-size-mismatch", fmt.Sprintf("%s records size %d but its entries sum to %d", L.name, L.l.Len, sum)
		}
		if len(L.l.Entries) != L.l.Count {
			return "region-count-mismatch", fmt.Sprintf("%s records count %d but holds %d entries", L.name, L.l.Count, len(L.l.Entries))
		}
		if !L.l.BackwardOK {
			return "list-links-broken", fmt.Sprintf("%s: backward walk disagrees with forward walk", L.name)
		}
		total += sum
	}
	for p, e := range live {
		if _, ok := seen[p]; !ok {
			info := internal.VerifEntryInfo(e)
			return "tracked-entry-in-no-region", fmt.Sprintf("tracked entry key=%d (weight %d) is in none of the regions", info.Key, info.PolicyWeight)
		}
	}
	if total != int64(st.WeightedSize) {
		return "policy-total-mismatch", fmt.Sprintf("regions sum to %d but policy total is %d", total, st.WeightedSize)
	}
	if afterSizeChange && st.WeightedSize > st.Capacity {
		return "over-capacity-after-set", fmt.Sprintf("policy total %d > capacity %d after an insert / cost change", st.WeightedSize, st.Capacity)
	}
	if st.Window.Capacity < 1 {
		return "window-capacity-below-1", fmt.Sprintf("window capacity %d", st.Window.Capacity)
	}
	if st.Window.Capacity > st.Capacity || st.Protected.Capacity > st.Capacity {
		return "region-capacity-wrapped", fmt.Sprintf("window capacity %d / protected capacity %d exceed total capacity %d (unsigned wrap-around)", st.Window.Capacity, st.Protected.Capacity, st.Capacity)
	}
	if st.Window.Capacity+st.Protected.Capacity != capSum {
		return "capacity-not-conserved", fmt.Sprintf("window %d + protected %d != initial sum %d", st.Window.Capacity, st.Protected.Capacity, capSum)
	}
	return "", ""
}

// c07Reorder: the store applies cost changes as deltas computed under the shard
// lock but sent afterwards, so two Sets of one key can reach the policy in the
// reverse order (the code says "different order still works"). Between the
// negative delta and the positive one that justifies it the entry's policy
// weight is negative. This scenario reproduces that transient on the real
// policy - negative delta, a climb that grows the window while the weight is
// negative, the compensating delta, one more insert - and judges what must
// survive it: every step terminates, window capacity stays in [1, capacity],
// window + protected capacity is conserved, and once both deltas are applied the
// full walker holds again.
func c07Reorder(r *Run, variant int) {
	rng := r.Rng(int64(7700 + variant))
	capacity := []uint{20, 100, 100, 1000}[variant%4]
	w := int64(2 + rng.Intn(int(capacity)/5+1)) // weight of the ordinary entries
	v := internal.VerifNewTlfu[int, int](capacity, nil)
	live := map[uintptr]*c07Ent{}
	var ents []*c07Ent
	key := 0
	for used := int64(0); used+w <= int64(capacity); used += w {
		e := internal.NewEntry[int, int](key, key, w, 0)
		key++
		v.Insert(e)
		live[internal.VerifEntryPtr(e)] = e
		ents = append(ents, e)
	}
	st0 := v.State(len(ents) + 10)
	capSum := st0.Window.Capacity + st0.Protected.Capacity
	drop := func() {
		for _, e := range v.Evicted {
			delete(live, internal.VerifEntryPtr(e))
		}
		v.Evicted = v.Evicted[:0]
	}
	drop()
	if len(st0.Probation.Entries) == 0 {
		r.Inconclusive(1)
		return
	}
	// the probation tail is what the climber looks at first when it grows the window
	tail := st0.Probation.Entries[len(st0.Probation.Entries)-1]
	var target *c07Ent
	for _, e := range ents {
		if internal.VerifEntryPtr(e) == tail.Ptr {
			target = e
		}
	}
	under := int64(1 + rng.Intn(6)) // how far below zero the weight goes
	step := float32(2 + rng.Intn(6))
	script := []string{fmt.Sprintf("capacity %d filled with entries of weight %d", capacity, w)}
	wit := func() map[string]any {
		return map[string]any{"variant": variant, "capacity": capacity, "script": script}
	}
	// every step runs under a termination watchdog (two dumps apart, still inside the policy)
	run := func(desc string, f func()) bool {
		script = append(script, desc)
		done := make(chan struct{})
		go func() {
			defer func() {
				if p := recover(); p != nil {
					r.Violate("panic-in-policy/after-reordered-cost-deltas", fmt.Sprintf("step %q panicked: %v; script: %v", desc, p, script), wit())
				}
				close(done)
			}()
			f()
		}()
		select {
		case <-done:
			return true
		case <-time.After(3 * time.Second):
		}
		gs := stableDump(300 * time.Millisecond)
		for _, g := range gs {
			if g.State == "runnable" || g.State == "running" {
				if top := g.topTheineFrame(); strings.Contains(g.Text, "c07Reorder") && top != "" {
					select {
					case <-done:
						return true
					default:
					}
					r.Violate("policy-step-does-not-terminate/after-reordered-cost-deltas",
						fmt.Sprintf("step %q has been running inside the policy (%s) for 3 s and in two dumps 300 ms apart (normal duration: microseconds); script: %v; state read while it spins: window capacity %d", desc, top, script, int64(v.T_WindowCapacity())), wit())
					return false
				}
			}
		}
		<-done
		return true
	}
	ok := run(fmt.Sprintf("late Set's delta first: cost of key %d changes by %d (weight %d -> %d)", tail.Key, -(w+under), w, -under), func() { v.UpdateCost(target, -(w + under)) })
	drop()
	ok = ok && run(fmt.Sprintf("climb that grows the window by %v while that weight is negative", step), func() {
		v.SetHr(0)
		v.SetStep(step)
		v.SetSample(10, 10)
		v.ForceClimb()
	})
	drop()
	if ok {
		st := v.State(len(ents) + 10)
		script = append(script, fmt.Sprintf("-> window capacity %d, protected capacity %d (sum was %d)", int64(st.Window.Capacity), int64(st.Protected.Capacity), capSum))
		switch {
		case st.Window.Capacity < 1 || st.Window.Capacity > st.Capacity || st.Protected.Capacity > st.Capacity:
			r.Violate("region-capacity-wrapped/after-reordered-cost-deltas", fmt.Sprintf("after the climb window capacity is %d and protected capacity %d of total %d (unsigned wrap-around); script: %v", int64(st.Window.Capacity), int64(st.Protected.Capacity), st.Capacity, script), wit())
		case st.Window.Capacity+st.Protected.Capacity != capSum:
			r.Violate("capacity-not-conserved/after-reordered-cost-deltas", fmt.Sprintf("window %d + protected %d != %d; script: %v", st.Window.Capacity, st.Protected.Capacity, capSum, script), wit())
		}
	}
	if _, still := live[internal.VerifEntryPtr(target)]; still && ok {
		ok = run(fmt.Sprintf("the earlier Set's delta arrives: cost of key %d changes by +%d", tail.Key, w+under), func() { v.UpdateCost(target, w+under) })
		drop()
	}
	if ok {
		e := internal.NewEntry[int, int](key, key, 1, 0)
		ok = run("one more insert", func() { v.Insert(e) })
		live[internal.VerifEntryPtr(e)] = e
		drop()
	}
	if ok {
		st := v.State(len(live) + 10)
		if k, what := c07Check(st, live, capSum, true); k != "" {
			r.Violate(k+"/after-reordered-cost-deltas", fmt.Sprintf("after both deltas were applied: %s; script: %v", what, script), wit())
		}
	}
	r.Eval(1)
	r.Count("reordered_delta_scenarios", 1)
	r.Distinct(fmt.Sprintf("reorder/cap%d/w%d/under%d/step%d", capacity, w, under, int(step)))
	if variant < 2 {
		r.Sample(8, map[string]any{"reordered_cost_deltas": script})
	}
}

func runC07(r *Run) {
	defer func() {
		nre := r.Pick(6, 200)
		for i := 0; i < nre; i++ {
			c07Reorder(r, r.Shard*nre+i)
		}
	}()
	r.Rule("case = one generated sequence of policy steps (insert/access/cost-update/remove/forced climb/sketch fill) on a real TinyLfu with the invariant walker after every step; " +
		"non-trivial = the sequence saw at least one eviction and at least one change of the window capacity; distinct by (capacity, hash of the op-kind sequence)")
	r.Assume("policy driven directly (single goroutine) the way sinkWrite drives it: NEW = sketch.Add + Set, UPDATE = policyWeight += delta + UpdateCost, removal of evicted entries via the remove callback")
	caps := []uint{1, 2, 3, 4, 5, 8, 15, 16, 20, 100, 150, 1000}
	nseq := r.Pick(8000, 150000)
	steps := r.Pick(250, 300)
	var progress atomic.Int64
	var current atomic.Value
	done := make(chan struct{})
	go func() {
		// watchdog: a step that makes no progress for 30 s while the worker is still running = non-termination
		last, lastChange := int64(-1), time.Now()
		for {
			select {
			case <-done:
				return
			case <-time.After(500 * time.Millisecond):
			}
			p := progress.Load()
			if p != last {
				last, lastChange = p, time.Now()
				continue
			}
			if time.Since(lastChange) > 30*time.Second {
				stk := allStacks()
				if strings.Contains(stk, "evictFromMain") || strings.Contains(stk, "internal.(*TinyLfu") || strings.Contains(stk, "internal.(*List") {
					r.Violate("policy-step-does-not-terminate", "a policy step has not returned for 30 s (normal duration: microseconds) and is still running inside the policy",
						map[string]any{"current": current.Load(), "stacks": stk})
				} else {
					r.Inconclusive(1)
					r.Broken("watchdog fired outside policy code")
				}
				r.Finish()
				// the stuck goroutine cannot be stopped; leave through the driver's expected path
				exitNow(0)
			}
		}
	}()
	parMap(nseq, 12, func(i int) {
		rng := r.Rng(int64(i))
		capacity := caps[rng.Intn(len(caps))]
		v := internal.VerifNewTlfu[int, int](capacity, nil)
		s := &c07State{v: v, live: map[uintptr]*c07Ent{}, capacity: capacity}
		st0 := v.State(10)
		s.capSum = st0.Window.Capacity + st0.Protected.Capacity
		var liveList []*c07Ent
		nextKey := 0
		heavy := rng.Intn(3) == 0 // allow entries heavier than the window
		pickCost := func() int64 {
			if heavy || rng.Intn(10) == 0 {
				return 1 + rng.Int63n(int64(capacity))
			}
			if rng.Intn(2) == 0 {
				return 1
			}
			return 1 + rng.Int63n(1+int64(capacity)/8)
		}
		var kinds strings.Builder
		var fail func(key, what string)
		fail = func(key, what string) {
			s.bad = key
			ops := s.ops
			if len(ops) > 400 {
				ops = ops[len(ops)-400:]
			}
			r.Violate(key, what, map[string]any{"capacity": capacity, "ops": ops, "seq": i})
		}
		syncEvicted := func() {
			for _, e := range v.Evicted {
				info := internal.VerifEntryInfo(e)
				if info.InList {
					fail("evicted-entry-still-linked", fmt.Sprintf("entry key=%d handed to the removal callback is still linked", info.Key))
				}
				p := internal.VerifEntryPtr(e)
				if _, ok := s.live[p]; !ok {
					fail("evicted-untracked-entry", fmt.Sprintf("removal callback for entry key=%d that is not tracked", info.Key))
				}
				delete(s.live, p)
				s.evicted++
			}
			if len(v.Evicted) > 0 {
				v.Evicted = v.Evicted[:0]
				n := liveList[:0]
				for _, e := range liveList {
					if _, ok := s.live[internal.VerifEntryPtr(e)]; ok {
						n = append(n, e)
					}
				}
				liveList = n
			}
		}
		for step := 0; step < steps && s.bad == ""; step++ {
			x := rng.Intn(100)
			sizeChange := false
			desc := ""
			wcBefore := v.State(0).Window.Capacity
			func() {
				defer func() {
					if p := recover(); p != nil {
						fail("panic-in-policy", fmt.Sprintf("step %q panicked: %v", desc, p))
					}
				}()
				switch {
				case x < 40 || len(liveList) == 0:
					c := pickCost()
					e := internal.NewEntry[int, int](nextKey, nextKey, c, 0)
					nextKey++
					desc = fmt.Sprintf("insert k=%d cost=%d", nextKey-1, c)
					s.ops = append(s.ops, desc)
					current.Store(desc)
					s.live[internal.VerifEntryPtr(e)] = e
					liveList = append(liveList, e)
					v.Insert(e)
					sizeChange = true
					kinds.WriteByte('i')
				case x < 65:
					e := liveList[rng.Intn(len(liveList))]
					n := 1 + rng.Intn(3)
					desc = fmt.Sprintf("access k=%d x%d", internal.VerifEntryInfo(e).Key, n)
					s.ops = append(s.ops, desc)
					current.Store(desc)
					for k := 0; k < n; k++ {
						v.Access(e)
					}
					kinds.WriteByte('a')
				case x < 80:
					e := liveList[rng.Intn(len(liveList))]
					info := internal.VerifEntryInfo(e)
					nc := pickCost()
					desc = fmt.Sprintf("cost k=%d %d->%d", info.Key, info.PolicyWeight, nc)
					s.ops = append(s.ops, desc)
					current.Store(desc)
					if nc != info.PolicyWeight {
						v.UpdateCost(e, nc-info.PolicyWeight)
						sizeChange = true
					}
					kinds.WriteByte('c')
				case x < 88:
					idx := rng.Intn(len(liveList))
					e := liveList[idx]
					desc = fmt.Sprintf("remove k=%d", internal.VerifEntryInfo(e).Key)
					s.ops = append(s.ops, desc)
					current.Store(desc)
					v.Remove(e)
					delete(s.live, internal.VerifEntryPtr(e))
					liveList = append(liveList[:idx], liveList[idx+1:]...)
					kinds.WriteByte('r')
				case x < 94:
					// arbitrary sample counts, hit ratio and step, then an explicit climb+resize
					h, ms := uint64(rng.Intn(1<<uint(rng.Intn(20)))), uint64(rng.Intn(1<<uint(rng.Intn(20))))
					if rng.Intn(4) == 0 {
						v.SetHr(rng.Float32())
					}
					if rng.Intn(4) == 0 {
						v.SetStep((rng.Float32()*2 - 1) * float32(capacity) * 2)
					}
					desc = fmt.Sprintf("climb hits=%d misses=%d", h, ms)
					s.ops = append(s.ops, desc)
					current.Store(desc)
					v.SetSample(h, ms)
					v.ForceClimb()
					kinds.WriteByte('C')
				case x < 97:
					// make the next Set/Access run the climber itself
					sk := v.Sketch()
					h := uint64(sk.SampleSize) + uint64(rng.Intn(100)) + 1
					desc = fmt.Sprintf("sample-overflow hits=%d", h)
					s.ops = append(s.ops, desc)
					current.Store(desc)
					if rng.Intn(2) == 0 {
						v.SetSample(h, 0)
					} else {
						v.SetSample(uint64(rng.Intn(int(h))), h)
					}
					kinds.WriteByte('s')
				default:
					// arbitrary sketch contents: bulk-add to random / resident hashes, sometimes saturate
					sk := v.Sketch()
					n := rng.Intn(64)
					desc = fmt.Sprintf("sketch-fill n=%d", n)
					s.ops = append(s.ops, desc)
					current.Store(desc)
					for k := 0; k < n; k++ {
						var h uint64
						if len(liveList) > 0 && rng.Intn(2) == 0 {
							h = v.Hash(internal.VerifEntryInfo(liveList[rng.Intn(len(liveList))]).Key)
						} else {
							h = rng.Uint64()
						}
						sk.Addn(h, rng.Intn(16))
					}
					kinds.WriteByte('f')
				}
			}()
			progress.Add(1)
			if s.bad != "" {
				break
			}
			syncEvicted()
			st := v.State(len(s.live) + s.evicted + 100)
			if st.Window.Capacity != wcBefore {
				s.resized++
			}
			if key, what := c07Check(st, s.live, s.capSum, sizeChange); key != "" {
				fail(key, fmt.Sprintf("after step %d (%s): %s", step, desc, what))
			}
		}
		r.Eval(1)
		r.Count("steps", int64(len(s.ops)))
		r.Count("evictions_observed", int64(s.evicted))
		r.Count("window_resizes_observed", int64(s.resized))
		if s.evicted > 0 && s.resized > 0 {
			r.Distinct(fmt.Sprintf("%d/%x", capacity, hashStr(kinds.String())))
		}
		if i < 3 {
			ops := s.ops
			if len(ops) > 25 {
				ops = ops[:25]
			}
			r.Sample(3, map[string]any{"capacity": capacity, "first_ops": ops, "evictions": s.evicted, "window_resizes": s.resized})
		}
	})
	close(done)
}
