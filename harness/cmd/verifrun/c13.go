package main

import (
	"context"
	"errors"
	"fmt"
	"math/rand"
	"runtime"
	"strings"
	"sync"
	"sync/atomic"
	"time"

	theine "github.com/Yiling-J/theine-go"
	"github.com/Yiling-J/theine-go/internal"
)

// C13 — loading cache: one load in flight per key, result shared, failures
// delivered but not cached, shard not left blocked.
//
// Events. The user loader stamps every invocation (key, number, start, end,
// outcome) with the process-wide logical clock; every outcome is unique: value
// n<<16|key, error text "load-error-inv-n-key-k", panic text
// "load-panic-inv-n-key-k", or runtime.Goexit. Every client Get runs in its own
// goroutine so that a panic or Goexit reaching the caller is observed, and is
// recorded with its call / return stamps.
// Oracle.
//  R1 two invocations for one key never overlap;
//  R2 a Get that ends with failure i (error, panic) was invoked before
//     invocation i ended — a failure handed to a Get invoked afterwards has
//     been cached; a Goexit reaching a Get must overlap a Goexit invocation of
//     its key; a failure never crosses keys;
//  R3 a Get that returns a loaded value returns it no earlier than that
//     invocation started, and under its own key;
//  R4 after any loader outcome the shard is usable: all clients finish and a
//     Set on another key of the same shard returns (deadlock predicate: the
//     goroutine is parked in a lock acquisition while no loader is running and
//     no other client is inside the cache);
//  R5 a successful load is admitted like the equivalent Set: EstimatedSize
//     grows by the returned cost (0 => cost function), a TTL'd load is a hit
//     before and reloaded after its deadline (virtual time), an oversize load is
//     returned but not stored;
//  R6 scripted: the leader of a failing load parked just before singleflight
//     clean-up (hook H5) — a Get invoked then must run the loader again.

func init() { registry["C13"] = runC13 }

type c13Inv struct {
	Key     int    `json:"key"`
	N       int64  `json:"n"`
	Start   int64  `json:"start"`
	End     int64  `json:"end"`
	Outcome string `json:"outcome"` // value | error | panic | goexit
}

type c13Get struct {
	Key    int    `json:"key"`
	Call   int64  `json:"call"`
	Ret    int64  `json:"ret"`
	Kind   string `json:"kind"` // value | error | panic | goexit
	Val    int64  `json:"val,omitempty"`
	Text   string `json:"text,omitempty"`
	Leader bool   `json:"ran_loader"`
}

type c13Env struct {
	lc      *theine.LoadingCache[int, int64]
	mu      sync.Mutex
	invs    []*c13Inv
	seq     atomic.Int64
	active  atomic.Int64
	plan    func(n int64, key int) (outcome string, dur int, cost int64, ttl time.Duration)
	endCond *sync.Cond // broadcast at every invocation end (late arrivals)
}

func c13ValOf(n int64, key int) int64 { return n<<16 | int64(key&0xffff) }

func newC13Env(maxsize int64, plan func(n int64, key int) (string, int, int64, time.Duration)) (*c13Env, error) {
	e := &c13Env{plan: plan}
	e.endCond = sync.NewCond(&sync.Mutex{})
	var err error
	// cost function: 2, except for values of keys with bit 15 set, which are far too heavy for any cache here
	e.lc, err = theine.NewBuilder[int, int64](maxsize).Cost(func(v int64) int64 {
		if v&0x8000 != 0 {
			return 1 << 40
		}
		return 2
	}).Loading(
		func(ctx context.Context, k int) (theine.Loaded[int64], error) {
			n := e.seq.Add(1)
			if tok, ok := ctx.Value(tokKeyT{}).(*loadTok); ok {
				tok.loaded = true
			}
			outcome, dur, cost, ttl := e.plan(n, k)
			inv := &c13Inv{Key: k, N: n, Outcome: outcome}
			e.active.Add(1)
			inv.Start = tick()
			e.mu.Lock()
			e.invs = append(e.invs, inv)
			e.mu.Unlock()
			for i := 0; i < dur; i++ {
				if i%8 == 7 {
					time.Sleep(50 * time.Microsecond)
				} else {
					runtime.Gosched()
				}
			}
			e.mu.Lock()
			inv.End = tick()
			e.mu.Unlock()
			e.active.Add(-1)
			e.endCond.L.Lock()
			e.endCond.Broadcast()
			e.endCond.L.Unlock()
			switch outcome {
			case "error":
				return theine.Loaded[int64]{}, fmt.Errorf("load-error-inv-%d-key-%d", n, k)
			case "panic":
				panic(fmt.Sprintf("load-panic-inv-%d-key-%d", n, k))
			case "goexit":
				runtime.Goexit()
			}
			return theine.Loaded[int64]{Value: c13ValOf(n, k), Cost: cost, TTL: ttl}, nil
		}).Build()
	return e, err
}

// get runs one Get in its own goroutine and classifies how it ended.
func (e *c13Env) get(k int) c13Get {
	out := make(chan c13Get, 1)
	go func() {
		g := c13Get{Key: k}
		tok := &loadTok{}
		normal := false
		defer func() {
			if !normal {
				if r := recover(); r != nil {
					g.Kind, g.Text = "panic", fmt.Sprint(r)
					if len(g.Text) > 200 {
						g.Text = g.Text[:200]
					}
				} else {
					g.Kind = "goexit"
				}
				g.Ret = tick()
				g.Leader = tok.loaded
				out <- g
			}
		}()
		g.Call = tick()
		v, err := e.lc.Get(context.WithValue(context.Background(), tokKeyT{}, tok), k)
		g.Ret = tick()
		g.Leader = tok.loaded
		if err != nil {
			g.Kind, g.Text = "error", err.Error()
		} else {
			g.Kind, g.Val = "value", v
		}
		normal = true
		out <- g
	}()
	return <-out
}

func (e *c13Env) snapshotInvs() []c13Inv {
	e.mu.Lock()
	defer e.mu.Unlock()
	out := make([]c13Inv, len(e.invs))
	for i, v := range e.invs {
		out[i] = *v
	}
	return out
}

func c13ParseFailure(text string) (n int64, key int, ok bool) {
	for _, pfx := range []string{"load-error-inv-", "load-panic-inv-"} {
		if i := strings.Index(text, pfx); i >= 0 {
			if _, err := fmt.Sscanf(text[i+len(pfx):], "%d-key-%d", &n, &key); err == nil {
				return n, key, true
			}
		}
	}
	return 0, 0, false
}

// c13Judge applies R1–R3 to one round's logs.
func c13Judge(r *Run, label string, invs []c13Inv, gets []c13Get, sets map[int64]bool, wit map[string]any) {
	fail := func(key, what string, extra any) {
		w := map[string]any{"round": label, "detail": extra}
		for k, v := range wit {
			w[k] = v
		}
		r.Violate(key, label+": "+what, w)
	}
	byN := map[int64]c13Inv{}
	byKey := map[int][]c13Inv{}
	for _, v := range invs {
		byN[v.N] = v
		byKey[v.Key] = append(byKey[v.Key], v)
	}
	// R1
	for k, l := range byKey {
		for i := range l {
			for j := i + 1; j < len(l); j++ {
				a, b := l[i], l[j]
				if a.End == 0 || b.End == 0 {
					continue
				}
				if a.Start < b.End && b.Start < a.End {
					fail("concurrent-loads-same-key", fmt.Sprintf("loader invocations %d [%d,%d] and %d [%d,%d] for key %d overlap", a.N, a.Start, a.End, b.N, b.Start, b.End, k), []c13Inv{a, b})
				}
			}
		}
	}
	shared := 0
	for _, g := range gets {
		switch g.Kind {
		case "error", "panic":
			n, key, ok := c13ParseFailure(g.Text)
			if !ok {
				if g.Kind == "error" && errors.Is(errors.New(g.Text), internal.ErrCacheClosed) {
					continue
				}
				fail("get-failed-with-foreign-failure", fmt.Sprintf("Get(%d) ended with %s %q that no loader invocation produced", g.Key, g.Kind, g.Text), g)
				continue
			}
			inv, known := byN[n]
			if !known || key != g.Key || inv.Key != g.Key {
				fail("failure-crossed-keys", fmt.Sprintf("Get(%d) received the failure of invocation %d, which loaded key %d", g.Key, n, key), g)
				continue
			}
			want := map[string]string{"error": "error", "panic": "panic"}[g.Kind]
			if inv.Outcome != want {
				fail("failure-kind-changed", fmt.Sprintf("Get(%d) ended with a %s but invocation %d ended with %s", g.Key, g.Kind, n, inv.Outcome), g)
			}
			if inv.End != 0 && g.Call > inv.End {
				fail("stale-shared-load/failure-delivered-to-get-invoked-after-invocation-end",
					fmt.Sprintf("Get(%d) invoked at %d received the %s of loader invocation %d, which had ended at %d: the failure was served from a finished load instead of running the loader again", g.Key, g.Call, g.Kind, n, inv.End), map[string]any{"get": g, "invocation": inv})
			}
			if !g.Leader {
				shared++
			}
		case "goexit":
			ok := false
			for _, inv := range byKey[g.Key] {
				if inv.Outcome == "goexit" && inv.Start < g.Ret && (inv.End == 0 || g.Call < inv.End) {
					ok = true
				}
			}
			if !ok {
				fail("goexit-without-overlapping-goexit-load", fmt.Sprintf("the goroutine of Get(%d) [%d,%d] was terminated by Goexit but no loader invocation of that key that called Goexit overlaps it", g.Key, g.Call, g.Ret), g)
			}
		case "value":
			if sets[g.Val] {
				continue
			}
			n, key := g.Val>>16, int(g.Val&0xffff)
			inv, known := byN[n]
			if !known || key != g.Key&0xffff || inv.Key != g.Key {
				fail("value-from-nowhere", fmt.Sprintf("Get(%d) returned %#x, which is neither a value Set by a client nor one produced by a loader invocation for that key", g.Key, g.Val), g)
				continue
			}
			if inv.Outcome != "value" {
				fail("value-of-failed-load", fmt.Sprintf("Get(%d) returned the value of invocation %d, which ended with %s", g.Key, n, inv.Outcome), g)
			}
			if g.Ret < inv.Start {
				fail("value-from-the-future", fmt.Sprintf("Get(%d) returned at %d the value of invocation %d that started at %d", g.Key, g.Ret, n, inv.Start), g)
			}
			if !g.Leader {
				shared++
			}
		}
	}
	r.Count("gets_judged", int64(len(gets)))
	r.Count("loader_invocations", int64(len(invs)))
	r.Count("results_obtained_without_running_the_loader", int64(shared))
}

// c13WaitAll waits for wg; if it does not complete, decides by the deadlock
// predicate (clients parked in a lock acquisition inside the cache while no
// loader is running). Returns false when stuck (violation already recorded) or
// undecided (inconclusive).
func c13WaitAll(r *Run, e *c13Env, wg *sync.WaitGroup, label string, wit map[string]any) bool {
	done := make(chan struct{})
	go func() { wg.Wait(); close(done) }()
	for evals := 0; evals < 120; evals++ {
		select {
		case <-done:
			return true
		case <-time.After(50 * time.Millisecond):
		}
		if e.active.Load() != 0 {
			continue
		}
		seq0 := e.seq.Load()
		stable, all := dumpPair(150 * time.Millisecond)
		if dumpBlind.Load() {
			r.Broken("C13: goroutine dumps cannot be parsed; hang verdicts are void")
			return false
		}
		if e.active.Load() != 0 || e.seq.Load() != seq0 {
			continue // a loader ran meanwhile: things move
		}
		// every client goroutine inside the cache, from the SECOND dump; one that is not parked, or
		// not identical in both dumps, can still make progress and release what the others wait for
		parked, other := 0, 0
		where := ""
		for id, g := range all {
			top := g.topTheineFrame()
			if top == "" || strings.Contains(g.Text, "created by "+theineFrame) {
				continue
			}
			_, same := stable[id]
			if same && (strings.HasPrefix(g.State, "sync.") || g.State == "semacquire" || g.State == "chan receive") {
				parked++
				where = top + " [" + g.State + "]"
			} else {
				other++
			}
		}
		if parked > 0 && other == 0 {
			select {
			case <-done:
				return true
			default:
			}
			r.Violate("shard-blocked-after-loader-failure", fmt.Sprintf("%s: %d client call(s) are parked forever in %s while no loader is running and no other call is active: a lock or in-flight record was left behind", label, parked, where), wit)
			return false
		}
	}
	r.Inconclusive(1)
	return false
}

type c13Cfg struct {
	Keys      int    `json:"keys"`
	Callers   int    `json:"callers"`
	Ops       int    `json:"gets_per_caller"`
	Failures  string `json:"failure_mix"`
	Writes    bool   `json:"interleaved_set_delete"`
	SameShard bool   `json:"keys_share_a_shard"`
	Late      bool   `json:"late_arrivals"`
}

func c13Round(r *Run, idx int) {
	rng := r.Rng(int64(13000 + idx))
	cfg := c13Cfg{Keys: 1 + rng.Intn(8), Callers: []int{2, 4, 8, 16, 64}[rng.Intn(5)], Ops: 6 + rng.Intn(20),
		Failures: []string{"none", "errors", "mixed", "mostly-failing"}[rng.Intn(4)], Writes: rng.Intn(2) == 0, SameShard: rng.Intn(2) == 0, Late: rng.Intn(2) == 0}
	planSeed := rng.Int63()
	plan := func(n int64, key int) (string, int, int64, time.Duration) {
		pr := rand.New(rand.NewSource(planSeed + n*7919))
		dur := pr.Intn(40)
		x := pr.Intn(100)
		outcome := "value"
		switch cfg.Failures {
		case "errors":
			if x < 35 {
				outcome = "error"
			}
		case "mixed":
			switch {
			case x < 20:
				outcome = "error"
			case x < 35:
				outcome = "panic"
			case x < 45:
				outcome = "goexit"
			}
		case "mostly-failing":
			switch {
			case x < 40:
				outcome = "error"
			case x < 65:
				outcome = "panic"
			case x < 85:
				outcome = "goexit"
			}
		}
		return outcome, dur, int64(1 + pr.Intn(3)), 0
	}
	e, err := newC13Env(100000, plan)
	if err != nil {
		r.Broken("build: %v", err)
		return
	}
	// Close takes every shard lock: after a verdict that a lock was left behind it would wait forever
	closeOK := true
	defer func() {
		if closeOK {
			e.lc.Close()
		}
	}()
	st := e.lc.VerifStore()
	// choose keys: all in one shard, or spread
	var keys []int
	base := (idx * 131) % 50000
	want := st.VerifShardOf(base)
	for k := base; len(keys) < cfg.Keys && k < 65000; k++ {
		if !cfg.SameShard || st.VerifShardOf(k) == want {
			keys = append(keys, k)
		}
	}
	if len(keys) == 0 {
		keys = []int{1}
	}
	var mu sync.Mutex
	var gets []c13Get
	sets := map[int64]bool{}
	var vseq atomic.Int64
	var wg sync.WaitGroup
	for c := 0; c < cfg.Callers; c++ {
		wr := rand.New(rand.NewSource(rng.Int63()))
		wg.Add(1)
		go func(c int) {
			defer wg.Done()
			var mine []c13Get
			for i := 0; i < cfg.Ops; i++ {
				k := keys[wr.Intn(len(keys))]
				if cfg.Writes && wr.Intn(6) == 0 {
					if wr.Intn(2) == 0 {
						v := (1<<40 + vseq.Add(1)) << 16
						mu.Lock()
						sets[v] = true
						mu.Unlock()
						e.lc.Set(k, v, 1)
					} else {
						e.lc.Delete(k)
					}
					continue
				}
				if cfg.Late && wr.Intn(3) == 0 && e.active.Load() > 0 {
					// arrive just after some load has ended
					e.endCond.L.Lock()
					if e.active.Load() > 0 {
						e.endCond.Wait()
					}
					e.endCond.L.Unlock()
				}
				mine = append(mine, e.get(k))
				if wr.Intn(4) == 0 {
					e.lc.Delete(k) // make the next Get miss again
				}
			}
			mu.Lock()
			gets = append(gets, mine...)
			mu.Unlock()
		}(c)
	}
	wit := map[string]any{"config": cfg, "keys": keys}
	label := fmt.Sprintf("round %d (%d callers, %d keys, failures=%s)", idx, cfg.Callers, len(keys), cfg.Failures)
	// late-arrival waiters must not sleep forever once all loads are over
	stopBroadcast := make(chan struct{})
	go func() {
		for {
			select {
			case <-stopBroadcast:
				return
			case <-time.After(2 * time.Millisecond):
				e.endCond.L.Lock()
				e.endCond.Broadcast()
				e.endCond.L.Unlock()
			}
		}
	}()
	ok := c13WaitAll(r, e, &wg, label, wit)
	close(stopBroadcast)
	if !ok {
		closeOK = false
		return
	}
	invs := e.snapshotInvs()
	// R4: shard usable afterwards
	var pw sync.WaitGroup
	for _, k := range keys {
		pw.Add(1)
		go func(k int) {
			defer pw.Done()
			for o := 1; o < 4096; o++ {
				if st.VerifShardOf(k+o<<16) == st.VerifShardOf(k) {
					e.lc.Set(k+o<<16, 1, 1)
					return
				}
			}
		}(k)
	}
	if !c13WaitAll(r, e, &pw, label+" / Set on another key of the same shard afterwards", wit) {
		closeOK = false
		return
	}
	c13Judge(r, label, invs, gets, sets, wit)
	r.Eval(1)
	nFail, multi := 0, 0
	for _, v := range invs {
		if v.Outcome != "value" {
			nFail++
		}
	}
	joined := 0
	for _, g := range gets {
		if !g.Leader && g.Kind != "value" {
			joined++
		}
	}
	if joined > 0 {
		multi = 1
		r.Count("rounds_where_a_failure_was_shared_with_a_waiting_caller", 1)
	}
	if nFail > 0 && (multi > 0 || cfg.Callers >= 2) {
		sig := fmt.Sprintf("%d/%d/%s/%v/%v/%v|", len(keys), cfg.Callers, cfg.Failures, cfg.Writes, cfg.SameShard, cfg.Late)
		for i, v := range invs {
			if i < 24 {
				sig += v.Outcome[:1]
			}
		}
		r.Distinct(sig)
	}
	if idx < 3 {
		ex := gets
		if len(ex) > 6 {
			ex = ex[:6]
		}
		iv := invs
		if len(iv) > 6 {
			iv = iv[:6]
		}
		r.Sample(6, map[string]any{"config": cfg, "invocations": iv, "gets": ex})
	}
}

// c13Scripted: R5 (admitted like a Set) and R6 (leader parked before clean-up).
func c13Scripted(r *Run, idx int) {
	rng := r.Rng(int64(13500 + idx))
	// ---- R5
	type spec struct {
		cost int64
		ttl  time.Duration
	}
	specs := map[int]spec{}
	plan := func(n int64, key int) (string, int, int64, time.Duration) {
		s := specs[key]
		return "value", 0, s.cost, s.ttl
	}
	const maxsize = 50
	e, err := newC13Env(maxsize, plan)
	if err != nil {
		r.Broken("build: %v", err)
		return
	}
	st := e.lc.VerifStore()
	label := fmt.Sprintf("scripted %d", idx)
	fail := func(key, what string, extra any) {
		r.Violate(key, label+": "+what, map[string]any{"detail": extra})
	}
	// a loader that returns a negative TTL (expiresAt - now, computed a moment too late): a Set with that TTL stores
	// a value that is never served, so the loaded value is handed to the callers of this load and the next Get loads again
	{
		specs[99] = spec{cost: 1, ttl: -time.Duration(1+rng.Intn(5000)) * time.Millisecond}
		g := e.get(99)
		e.lc.Wait()
		if g.Kind == "value" && g.Leader {
			if g2 := e.get(99); !g2.Leader && g2.Kind == "value" {
				fail("load-not-admitted-as-a-set/negative-ttl-served-from-the-cache", fmt.Sprintf("the loader returned TTL %v for key 99; the next Get was answered from the cache (%#x) instead of loading again - SetWithTTL with that TTL stores a value that is never served", specs[99].ttl, g2.Val), g2)
			}
			r.Count("loads_with_a_negative_ttl_checked", 1)
		}
		e.lc.Delete(99)
		e.lc.Wait()
	}
	used := 0
	var ttlKeys []int
	for k := 1; k <= 12; k++ {
		sp := spec{cost: int64(rng.Intn(5))} // 0 => cost function (2)
		if rng.Intn(3) == 0 {
			sp.ttl = time.Duration(5+rng.Intn(100)) * time.Second
		}
		if k == 7 {
			sp.cost = maxsize + 1 + int64(rng.Intn(50)) // oversize
		}
		eff := sp.cost
		if eff == 0 {
			eff = 2
		}
		if k != 7 && used+int(eff) > maxsize {
			break
		}
		specs[k] = sp
		before := e.lc.EstimatedSize()
		g := e.get(k)
		e.lc.Wait()
		after := e.lc.EstimatedSize()
		if g.Kind != "value" || !g.Leader {
			fail("load-not-run-or-failed", fmt.Sprintf("first Get(%d) ended %s (ran loader: %v)", k, g.Kind, g.Leader), g)
			continue
		}
		if k == 7 {
			if after != before {
				fail("oversize-load-admitted", fmt.Sprintf("a loaded value of cost %d > MaxSize %d changed EstimatedSize from %d to %d", sp.cost, maxsize, before, after), g)
			}
			if g2 := e.get(k); !g2.Leader {
				fail("oversize-load-admitted", fmt.Sprintf("after an oversize load the next Get(%d) did not run the loader again", k), g2)
			}
			continue
		}
		used += int(eff)
		if int64(after-before) != eff {
			fail("load-cost-not-accounted", fmt.Sprintf("load of key %d returned cost %d (effective %d) but EstimatedSize went from %d to %d", k, sp.cost, eff, before, after), g)
		}
		if g2 := e.get(k); g2.Leader || g2.Val != g.Val {
			fail("loaded-value-not-readable", fmt.Sprintf("Get(%d) right after its load ran the loader again or returned another value (%#x vs %#x)", k, g2.Val, g.Val), g2)
		}
		if sp.ttl != 0 {
			ttlKeys = append(ttlKeys, k)
		}
		r.Count("scripted_loads_checked", 1)
	}
	// oversize through the cost function: the loader returns cost 0, the cost function says "far too heavy"
	{
		const k = 0x8000 | 9
		specs[k] = spec{cost: 0}
		before := e.lc.EstimatedSize()
		g := e.get(k)
		e.lc.Wait()
		after := e.lc.EstimatedSize()
		if g.Kind != "value" || !g.Leader {
			fail("load-not-run-or-failed", fmt.Sprintf("first Get(%#x) ended %s", k, g.Kind), g)
		} else {
			if after != before {
				fail("oversize-load-admitted/cost-from-cost-function", fmt.Sprintf("a loaded value whose cost function result exceeds MaxSize %d changed EstimatedSize from %d to %d", maxsize, before, after), g)
			}
			if g2 := e.get(k); !g2.Leader {
				fail("oversize-load-admitted/cost-from-cost-function", "after a load whose cost (from the cost function) exceeds MaxSize the next Get did not run the loader again", g2)
			}
		}
		r.Count("scripted_cost_function_oversize_checked", 1)
	}
	// TTL of loaded values, probed only now: shifting virtual time lets the real one-second
	// tick reclaim expired entries, which must not fall between two cost measurements above
	elapsed := time.Duration(0)
	sortInts(ttlKeys, func(a, b int) bool { return specs[a].ttl < specs[b].ttl })
	for _, k := range ttlKeys {
		sp := specs[k]
		if d := sp.ttl - time.Second - elapsed; d > 0 {
			st.VerifShiftClock(d, true)
			elapsed += d
		}
		st.VerifRefreshClock()
		if elapsed < sp.ttl {
			if g3 := e.get(k); g3.Leader {
				fail("loaded-ttl-too-short", fmt.Sprintf("Get(%d) %v into a TTL of %v ran the loader again", k, elapsed, sp.ttl), g3)
				continue
			}
		}
		d := sp.ttl + time.Second - elapsed
		st.VerifShiftClock(d, true)
		elapsed += d
		st.VerifRefreshClock()
		if g4 := e.get(k); !g4.Leader {
			fail("loaded-ttl-ignored", fmt.Sprintf("Get(%d) one second after the loader's TTL of %v had passed still returned the old value %#x without reloading", k, sp.ttl, g4.Val), g4)
		}
		r.Count("scripted_loaded_ttls_checked", 1)
	}
	e.lc.Close()
	// ---- R5b: "admitted as a Set with the TTL the loader returned would be" - a Set made when the loader returned.
	// A load that takes a while (40-90 ms of real time) returns a TTL; the deadline stored with the value must not
	// lie before (cache clock at the loader's return) + TTL. Read from the entry itself: no timing in the verdict.
	{
		var st2 *internal.Store[int, int64]
		var tEnd atomic.Int64
		dur := time.Duration(40+rng.Intn(50)) * time.Millisecond
		ttl := []time.Duration{30 * time.Millisecond, 5 * time.Second, time.Hour}[rng.Intn(3)]
		lc2, err := theine.NewBuilder[int, int64](100).Loading(func(ctx context.Context, k int) (theine.Loaded[int64], error) {
			time.Sleep(dur)
			tEnd.Store(st2.VerifNowNano())
			return theine.Loaded[int64]{Value: int64(k), Cost: 1, TTL: ttl}, nil
		}).Build()
		if err != nil {
			r.Broken("build: %v", err)
			return
		}
		st2 = lc2.VerifStore()
		if _, err := lc2.Get(context.Background(), 5); err == nil {
			lc2.Wait()
			for _, en := range st2.VerifSnapshot().Map {
				if en.Key == 5 && en.Expire < tEnd.Load()+int64(ttl) {
					fail("loaded-ttl-too-short/counted-from-before-the-loader-returned", fmt.Sprintf("a load that took %v returned TTL %v; the stored deadline %d lies %.1f ms before (cache clock when the loader returned) + TTL = %d", dur, ttl, en.Expire, float64(tEnd.Load()+int64(ttl)-en.Expire)/1e6, tEnd.Load()+int64(ttl)), nil)
				}
			}
			r.Count("scripted_slow_load_deadlines_checked", 1)
		}
		lc2.Close()
	}
	// ---- R5c: the same on a hybrid loading cache, both builder routes: what the loader returns decides cost and
	// deadline of the admitted value, whatever copy of the key the secondary store still held (expired, or none)
	for variant := 0; variant < 2; variant++ {
		var loads atomic.Int64
		ttl := []time.Duration{0, time.Hour}[(idx+variant)%2]
		a, err := newAnyCache("hybrid-loading", anyOpts{MaxSize: 100, Prob: 1, ProbSet: true, Loader: func(ctx context.Context, k int) (theine.Loaded[int64], error) {
			return theine.Loaded[int64]{Value: 5_000_000 + loads.Add(1), Cost: 3, TTL: ttl}, nil
		}})
		if err != nil {
			r.Broken("build: %v", err)
			return
		}
		st3 := a.store()
		now := st3.VerifNowNano()
		// an expired copy of key 9 and a live copy of key 10 are in the secondary store already
		_ = a.sec.Set(9, 111, 1, now-int64(time.Minute))
		_ = a.sec.Set(10, 222, 1, now+int64(time.Hour))
		v9, ok9, _ := a.get(context.Background(), 9)
		a.wait()
		if !ok9 || v9 < 5_000_000 {
			fail("expired-secondary-copy-served-instead-of-loading/"+a.route, fmt.Sprintf("hybrid loading cache (%s): key 9 had an expired copy in the secondary store; Get returned (%d,%v) instead of a freshly loaded value", a.route, v9, ok9), nil)
		} else {
			for _, en := range st3.VerifSnapshot().Map {
				if en.Key != 9 {
					continue
				}
				wantNone := ttl == 0
				if (wantNone && en.Expire != 0) || (!wantNone && (en.Expire < now+int64(ttl) || en.Expire > st3.VerifNowNano()+int64(ttl))) || en.Weight != 3 {
					fail("loaded-value-not-admitted-as-returned/"+a.route, fmt.Sprintf("hybrid loading cache (%s): the loader returned cost 3 and TTL %v for key 9 (whose copy in the secondary store had expired a minute ago); the admitted entry has cost %d and deadline %d (clock now %d)", a.route, ttl, en.Weight, en.Expire, st3.VerifNowNano()), nil)
				}
			}
			l0 := loads.Load()
			if v, ok, _ := a.get(context.Background(), 9); !ok || v != v9 || loads.Load() != l0 {
				fail("loaded-value-not-readable/"+a.route, fmt.Sprintf("hybrid loading cache (%s): Get(9) right after its load returned (%d,%v) and ran the loader %d more times", a.route, v, ok, loads.Load()-l0), nil)
			}
		}
		if v10, ok10, _ := a.get(context.Background(), 10); !ok10 || v10 != 222 {
			fail("live-secondary-copy-not-served/"+a.route, fmt.Sprintf("hybrid loading cache (%s): key 10 had a live copy (222) in the secondary store; Get returned (%d,%v)", a.route, v10, ok10), nil)
		}
		r.Count("scripted_hybrid_loads_checked", 1)
		a.store().Close()
	}
	// ---- R6: leader of a failing load parked before singleflight clean-up
	for _, outcome := range []string{"error", "panic", "goexit"} {
		var nth atomic.Int64
		plan2 := func(n int64, key int) (string, int, int64, time.Duration) {
			if nth.Add(1) == 1 {
				return outcome, 0, 1, 0
			}
			return "value", 0, 1, 0
		}
		e2, err := newC13Env(1000, plan2)
		if err != nil {
			r.Broken("build: %v", err)
			return
		}
		p := newParker(internal.VPSFCleanup)
		parkedCtl := p.parkAnyone() // the Get runs in a child goroutine of e2.get: park whoever reaches the hook
		var first c13Get
		done := make(chan struct{})
		go func() { first = e2.get(5); close(done) }()
		select {
		case <-parkedCtl.arrived:
		case <-time.After(10 * time.Second):
			r.Inconclusive(1)
			p.parkNoone()
			p.close()
			e2.lc.Close()
			continue
		}
		p.parkNoone()
		invs := e2.snapshotInvs()
		// a Get invoked after the failing invocation has ended, while its leader is still parked
		secondCh := make(chan c13Get, 1)
		go func() { secondCh <- e2.get(5) }()
		var second c13Get
		joined := false
		select {
		case second = <-secondCh:
		case <-time.After(300 * time.Millisecond):
			joined = true // presumably waiting on the parked leader's call; decides only the release order
		}
		parkedCtl.release <- struct{}{}
		<-done
		if joined {
			select {
			case second = <-secondCh:
			case <-time.After(20 * time.Second):
				r.Inconclusive(1)
				p.close()
				continue
			}
		}
		p.close()
		invs2 := e2.snapshotInvs()
		r.Count("scripted_leader_parked_before_cleanup", 1)
		if joined {
			r.Count("scripted_second_get_waited_for_the_parked_leader", 1)
		}
		if len(invs) != 1 || invs[0].End == 0 {
			r.Inconclusive(1)
		} else if second.Call > invs[0].End && (!second.Leader || second.Kind != "value") {
			r.Violate("stale-shared-load/failure-delivered-to-get-invoked-after-invocation-end",
				fmt.Sprintf("%s: the leader of a load that ended with %s was parked before its singleflight clean-up; a Get invoked then ended with %s %q without running the loader (invocations: %d)", label, outcome, second.Kind, second.Text, len(invs2)),
				map[string]any{"first": first, "second": second, "invocations": invs2})
		}
		r.Distinct(fmt.Sprintf("scripted-parked-leader/%s/%d", outcome, idx%4))
		e2.lc.Close()
	}
	r.Eval(1)
	r.Distinct(fmt.Sprintf("scripted-admission/%d", idx%8))
}

// c13ReloadOverLeftover: "a successful load is admitted exactly as a Set with the cost and TTL the loader returned
// would be" - also when the key's previous entry is still lying in the map: expired but not yet reclaimed (the Get
// comes within a tick of the deadline), the way a Set over such an entry is an update and not a second insertion.
// A cache of MaxSize 60 holds 20 permanent keys and one key whose loads carry a TTL; that key is read again right
// after each deadline (virtual time, no tick in between), 10-30 times over. Afterwards the cache must account for
// exactly the 21 entries it holds, nothing may have been evicted (the cache is a third full), and the permanent keys
// must still be answered without the loader.
func c13ReloadOverLeftover(r *Run, idx int) {
	rng := r.Rng(int64(13900 + idx))
	var mu sync.Mutex
	var evicted []int
	var loads atomic.Int64
	kind := []string{"loading", "hybrid-loading"}[idx%2]
	cost := int64(1 + idx/2%3)
	a, err := newAnyCache(kind, anyOpts{MaxSize: 60 * cost,
		Listener: func(k int, v int64, rs theine.RemoveReason) {
			if rs == theine.EVICTED {
				mu.Lock()
				evicted = append(evicted, k)
				mu.Unlock()
			}
		},
		Loader: func(ctx context.Context, k int) (theine.Loaded[int64], error) {
			n := loads.Add(1)
			var ttl time.Duration
			if k == 999 {
				ttl = 5 * time.Second
			}
			return theine.Loaded[int64]{Value: n<<16 | int64(k), Cost: cost, TTL: ttl}, nil
		}})
	if err != nil {
		r.Broken("build: %v", err)
		return
	}
	defer a.closeAPI()
	st := a.store()
	for k := 0; k < 20; k++ {
		_, _, _ = a.get(context.Background(), k)
	}
	_, _, _ = a.get(context.Background(), 999)
	a.wait()
	reloads := 10 + rng.Intn(21)
	ran := 0
	for i := 0; i < reloads; i++ {
		st.VerifShiftClock(5*time.Second+time.Duration(1+rng.Intn(900))*time.Millisecond, true)
		st.VerifRefreshClock()
		l0 := loads.Load()
		_, _, _ = a.get(context.Background(), 999)
		if loads.Load() > l0 {
			ran++
		}
	}
	a.wait()
	r.Eval(1)
	r.Count("reload_over_leftover_rounds", 1)
	r.Count("reloads_over_an_expired_unreclaimed_entry", int64(ran))
	r.Distinct(fmt.Sprintf("reload-over-leftover/%s/cost=%d", kind, cost))
	wit := map[string]any{"round": idx, "cache": kind, "cost_per_entry": cost, "reloads": ran}
	label := fmt.Sprintf("reload round %d (%s cache, MaxSize %d, 21 keys of cost %d, the TTL key reloaded %d times right after its deadline)", idx, kind, 60*cost, cost, ran)
	mu.Lock()
	ev := append([]int(nil), evicted...)
	mu.Unlock()
	if len(ev) > 0 {
		r.Violate("load-not-admitted-as-a-set/evictions-from-a-cache-a-third-full/after-reloads-over-an-expired-entry", fmt.Sprintf("%s: %d entries were reported EVICTED (first key %d)", label, len(ev), ev[0]), wit)
		return
	}
	if es, want := int64(st.EstimatedSize()), 21*cost; es != want {
		r.Violate("load-not-admitted-as-a-set/estimated-size-differs/after-reloads-over-an-expired-entry", fmt.Sprintf("%s: EstimatedSize is %d, the entries held cost %d", label, es, want), wit)
		return
	}
	l0 := loads.Load()
	for k := 0; k < 20; k++ {
		_, _, _ = a.get(context.Background(), k)
	}
	if n := loads.Load() - l0; n > 0 {
		r.Violate("load-not-admitted-as-a-set/resident-keys-lost/after-reloads-over-an-expired-entry", fmt.Sprintf("%s: %d of the 20 permanent keys had to be loaded again", label, n), wit)
	}
}

func runC13(r *Run) {
	r.Rule("case = one round on a fresh loading cache: 2-64 callers issue Gets (each in its own goroutine) on 1-8 keys (same or different shards) against a loader whose outcome per invocation (value / error / panic / Goexit) and duration come from the PRNG, with interleaved Set/Delete and late arrivals; or one scripted sequence (admission of loaded cost/TTL/oversize; leader parked before singleflight clean-up). Non-trivial = a round with >=2 callers and >=1 failing invocation, distinct by configuration + outcome sequence")
	r.Assume("every loader outcome is unique (invocation number embedded in value / error / panic text), so a result identifies its invocation",
		"panics reach callers wrapped in the package's internal error type; they are matched by text")
	if only := mustAtoi(r.Args["only"], -1); only >= 0 {
		// diagnosis: one round, repeated
		for rep := 0; rep < mustAtoi(r.Args["reps"], 50); rep++ {
			c13Round(r, only)
			if r.NViolations() > 0 {
				fmt.Printf("rep %d: violation; full goroutine dump follows\n%s\n", rep, allStacks())
				return
			}
		}
		return
	}
	n := r.Pick(640, 24000)
	for i := 0; i < n; i++ {
		if i%r.NShards != r.Shard {
			continue
		}
		c13Round(r, i)
	}
	ns := r.Pick(16, 320)
	for i := 0; i < ns; i++ {
		if i%r.NShards != r.Shard {
			continue
		}
		c13Scripted(r, i)
	}
	for i := 0; i < r.Pick(3, 24); i++ {
		if i%r.NShards == r.Shard {
			c13ReloadOverLeftover(r, i)
		}
	}
}
