//go:build race

package main

// raceEnabled reports whether this binary was built with the race detector.
const raceEnabled = true
