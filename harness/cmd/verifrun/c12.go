package main

import (
	"bytes"
	"encoding/base64"
	"encoding/json"
	"errors"
	"fmt"
	"io"
	"math/rand"
	"os"
	"path/filepath"
	"strings"
	"testing/iotest"
	"time"

	theine "github.com/Yiling-J/theine-go"
	"github.com/Yiling-J/theine-go/internal"
)

// C12 — a damaged or truncated stream is never loaded as wrong data.
//
// Fault enumeration against the real decoder. A stream is produced by the
// real SaveCache from a cache of a given shape; each mutant of its bytes is
// handed to LoadCache of a fresh cache, and the result is judged:
//   * a proper prefix (truncation) must give an error;
//   * any other damage must give an error, or every entry found in the loaded
//     cache (white-box snapshot) must be an entry of the saved cache with the
//     same value and cost and a wall-clock deadline that is not later than the
//     saved one (an entry saved with a deadline must still have one);
//   * never a panic (recovered and reported; a fatal error kills the child and
//     is reported by the driver from the descriptor written before the call);
//   * a stream saved under version A and loaded under B != A is always an error
//     with nothing loaded, and the error is VersionMismatch whenever the bytes
//     of the metadata message are intact.
// Mutations: every truncation offset; every single-bit flip and the byte
// substitutions 0x00 / 0xFF / PRNG at every offset (streams <= 4 KiB:
// enumerated completely); bursts of 2–64 PRNG bytes; duplication, removal and
// swapping of whole gob messages (= blocks), found with a small framing parser;
// for multi-block streams (>= 3 blocks of 4 MiB) a stratified sample.

func init() { registry["C12"] = runC12 }

type c12Saved[V comparable] struct {
	val      V
	cost     int64
	deadline int64 // wall clock (unix nano), 0 = none
}

type c12Shape struct {
	Name     string `json:"shape"`
	Entries  int    `json:"entries"`
	TTL      bool   `json:"with_ttl"`
	UptimeS  int    `json:"saver_uptime_s"`
	SavedVer uint64 `json:"saved_version"`
	LoadVer  uint64 `json:"load_version"`
	Big      bool   `json:"multi_block"`
	// Full: the saving cache is filled to its MaxSize (= Entries, unit costs) and the stream is loaded into a cache of
	// TargetSize (same size, or smaller), so that the receiving cache has no room left when the tail of the stream arrives
	Full       bool  `json:"saving_cache_full,omitempty"`
	TargetSize int64 `json:"receiving_maxsize,omitempty"`
}

func (sh c12Shape) sourceSize() int64 {
	if sh.Full {
		return int64(sh.Entries)
	}
	return int64(sh.Entries*4 + 100)
}

func (sh c12Shape) targetSize() int64 {
	if sh.TargetSize > 0 {
		return sh.TargetSize
	}
	return sh.sourceSize()
}

// ---- gob framing

// gobUint decodes gob's unsigned integer at b[i:]; returns value and next index (or -1).
func gobUint(b []byte, i int) (uint64, int) {
	if i >= len(b) {
		return 0, -1
	}
	c := b[i]
	if c < 128 {
		return uint64(c), i + 1
	}
	n := int(-int8(c))
	if n < 1 || n > 8 || i+1+n > len(b) {
		return 0, -1
	}
	var v uint64
	for _, x := range b[i+1 : i+1+n] {
		v = v<<8 | uint64(x)
	}
	return v, i + 1 + n
}

type gobMsg struct {
	Start, End int  // byte range including the length prefix
	TypeDef    bool // message defines a type (negative type id)
}

func gobMessages(b []byte) []gobMsg {
	var out []gobMsg
	for i := 0; i < len(b); {
		n, j := gobUint(b, i)
		if j < 0 || j+int(n) > len(b) {
			return out
		}
		id, _ := gobUint(b, j)
		out = append(out, gobMsg{Start: i, End: j + int(n), TypeDef: id&1 == 1})
		i = j + int(n)
	}
	return out
}

// ---- mutants

type c12Mutant struct {
	Kind string `json:"kind"`
	Off  int    `json:"offset"`
	Arg  int    `json:"arg"`
	Len  int    `json:"len,omitempty"`
	// Rd: how the bytes reach LoadCache. 0 = bytes.Reader; 1 = one byte per Read; 2 = the bytes, then an error that
	// is not io.EOF (a connection that broke); 3 = the last bytes arrive together with io.EOF (legal for an io.Reader)
	Rd int `json:"reader,omitempty"`
	// Via: the kind of cache whose public LoadCache receives the bytes ("" = plain)
	Via string `json:"via,omitempty"`
}

var errC12Broken = errors.New("harness: the reader's source broke off")

type c12TailReader struct {
	data []byte
	mode int
}

func (t *c12TailReader) Read(p []byte) (int, error) {
	if len(t.data) == 0 {
		if t.mode == 2 {
			return 0, errC12Broken
		}
		return 0, io.EOF
	}
	n := copy(p, t.data)
	t.data = t.data[n:]
	if len(t.data) == 0 && t.mode == 3 {
		return n, io.EOF
	}
	return n, nil
}

func c12Reader(data []byte, mode int) io.Reader {
	switch mode {
	case 1:
		return iotest.OneByteReader(bytes.NewReader(data))
	case 2, 3:
		return &c12TailReader{data: data, mode: mode}
	}
	return bytes.NewReader(data)
}

func (m c12Mutant) apply(src []byte, msgs []gobMsg) []byte {
	switch m.Kind {
	case "truncate":
		return src[:m.Off]
	case "bitflip":
		out := append([]byte(nil), src...)
		out[m.Off] ^= 1 << uint(m.Arg)
		return out
	case "byte":
		out := append([]byte(nil), src...)
		out[m.Off] = byte(m.Arg)
		return out
	case "burst":
		out := append([]byte(nil), src...)
		rg := rand.New(rand.NewSource(int64(m.Arg)))
		for i := 0; i < m.Len && m.Off+i < len(out); i++ {
			out[m.Off+i] = byte(rg.Intn(256))
		}
		return out
	case "pair":
		// two separate spots damaged at once: a bit of the byte at Off (bit Len&7) and a bit of the byte at Arg
		out := append([]byte(nil), src...)
		out[m.Off] ^= 1 << uint(m.Len&7)
		out[m.Arg] ^= 0x10
		return out
	case "dup-message":
		a := msgs[m.Off]
		out := append([]byte(nil), src[:a.End]...)
		out = append(out, src[a.Start:a.End]...)
		return append(out, src[a.End:]...)
	case "drop-message":
		a := msgs[m.Off]
		out := append([]byte(nil), src[:a.Start]...)
		return append(out, src[a.End:]...)
	case "swap-messages":
		a, b := msgs[m.Off], msgs[m.Arg]
		if a.Start > b.Start {
			a, b = b, a
		}
		out := append([]byte(nil), src[:a.Start]...)
		out = append(out, src[b.Start:b.End]...)
		out = append(out, src[a.End:b.Start]...)
		out = append(out, src[a.Start:a.End]...)
		return append(out, src[b.End:]...)
	}
	return src
}

// ---- one shape

type c12Runner[V comparable] struct {
	r                                  *Run
	shape                              c12Shape
	stream                             []byte
	msgs                               []gobMsg
	saved                              map[int]c12Saved[V]
	meta                               gobMsg // the message holding the metadata block (first value message)
	lastF                              *os.File
	accepted, rejected, reachedEntries int64
	via                                string // kind of cache whose public LoadCache receives the mutants ("" = plain)
}

func c12Build[V comparable](maxsize int64) (*theine.Cache[int, V], error) {
	return theine.NewBuilder[int, V](maxsize).Build()
}

func newC12Runner[V comparable](r *Run, sh c12Shape, mk func(i int) V, cost func(i int) int64) (*c12Runner[V], error) {
	c, err := c12Build[V](sh.sourceSize())
	if err != nil {
		return nil, err
	}
	defer c.Close()
	st := c.VerifStore()
	if sh.Full {
		cost = func(int) int64 { return 1 }
	}
	if sh.UptimeS > 0 {
		st.VerifShiftClock(time.Duration(sh.UptimeS)*time.Second, true)
		st.VerifRefreshClock()
	}
	for i := 0; i < sh.Entries; i++ {
		var ttl time.Duration
		if sh.TTL && i%2 == 0 {
			ttl = time.Duration(600+37*i) * time.Second
		}
		c.SetWithTTL(i, mk(i), cost(i), ttl)
	}
	if sh.Full {
		// twice as many keys as fit: the cache is full when it is saved
		for i := sh.Entries; i < 2*sh.Entries; i++ {
			c.Set(i, mk(i), 1)
		}
	}
	c.Wait()
	// touch some entries so that several regions are populated
	for rep := 0; rep < 3; rep++ {
		for i := 0; i < sh.Entries; i += 2 {
			c.Get(i)
		}
	}
	for i := 0; i < 2000; i++ {
		c.Get(sh.Entries + 1) // misses; fills nothing
	}
	c.Wait()
	var buf bytes.Buffer
	if err := c.SaveCache(sh.SavedVer, &buf); err != nil {
		return nil, err
	}
	rn := &c12Runner[V]{r: r, shape: sh, stream: buf.Bytes(), saved: map[int]c12Saved[V]{}}
	sn := st.VerifSnapshot()
	start := st.VerifClockStartNano()
	for _, e := range sn.Map {
		d := int64(0)
		if e.Expire != 0 {
			d = start + e.Expire
		}
		rn.saved[e.Key] = c12Saved[V]{val: e.Value, cost: e.Weight, deadline: d}
	}
	rn.msgs = gobMessages(rn.stream)
	for _, m := range rn.msgs {
		if !m.TypeDef {
			rn.meta = m
			break
		}
	}
	_ = os.MkdirAll(filepath.Join(r.ReplayDir, "C12"), 0o755)
	rn.lastF, _ = os.Create(filepath.Join(r.ReplayDir, "C12", fmt.Sprintf("in-flight-s%d-%d-%s.txt", r.Seed, r.Shard, sh.Name)))
	return rn, nil
}

func (rn *c12Runner[V]) done() {
	if rn.lastF != nil {
		name := rn.lastF.Name()
		rn.lastF.Close()
		os.Remove(name) // nothing died
	}
}

// try loads one mutant and judges it.
func (rn *c12Runner[V]) try(m c12Mutant) {
	m.Via = rn.via
	data := m.apply(rn.stream, rn.msgs)
	rn.tryBytes(m, data)
	// the same bytes through readers that behave differently at the end of what they have: every truncation once
	// more (one byte per Read / a source that breaks off with an error of its own / last bytes together with
	// io.EOF), one in eight of the other mutants through the one-byte reader
	switch {
	case m.Kind == "truncate":
		m.Rd = 1 + m.Off%3
		rn.tryBytes(m, data)
	case m.Kind != "pair" && (m.Off+m.Arg)%8 == 0:
		m.Rd = 1
		rn.tryBytes(m, data)
	}
}

// tryBytes loads the given (damaged) bytes and judges the outcome.
func (rn *c12Runner[V]) tryBytes(m c12Mutant, data []byte) {
	r := rn.r
	if rn.lastF != nil {
		// descriptor on disk before the call: if the decoder kills the process the driver still knows the input
		line := fmt.Sprintf("%-120s\n", fmt.Sprintf("shape=%s kind=%s off=%d arg=%d len=%d", rn.shape.Name, m.Kind, m.Off, m.Arg, m.Len))
		_, _ = rn.lastF.WriteAt([]byte(line), 0)
	}
	var recvStore *internal.Store[int, V]
	var load func(uint64, io.Reader) error
	if m.Via == "" {
		c, err := c12Build[V](rn.shape.targetSize())
		if err != nil {
			r.Broken("build: %v", err)
			return
		}
		defer c.Close()
		recvStore, load = c.VerifStore(), c.LoadCache
	} else {
		a, err := newAnyCache(m.Via, anyOpts{MaxSize: rn.shape.targetSize()})
		if err != nil {
			r.Broken("build: %v", err)
			return
		}
		defer a.closeAPI()
		st, ok := any(a.store()).(*internal.Store[int, V])
		if !ok {
			r.Broken("the kinds arm runs on int64 values only")
			return
		}
		recvStore, load = st, a.load
		r.Count("mutants_loaded_through_"+m.Via+"_cache", 1)
	}
	if m.Rd != 0 {
		r.Count(fmt.Sprintf("mutants_read_through_reader_mode_%d", m.Rd), 1)
	}
	var lerr error
	panicked := ""
	func() {
		defer func() {
			if p := recover(); p != nil {
				panicked = fmt.Sprint(p)
			}
		}()
		lerr = load(rn.shape.LoadVer, c12Reader(data, m.Rd))
	}()
	r.Eval(1)
	wit := func() map[string]any {
		w := map[string]any{"shape": rn.shape, "mutant": m, "value_type": fmt.Sprintf("%T", *new(V)), "stream_len": len(rn.stream), "error": fmt.Sprint(lerr), "messages": len(rn.msgs)}
		if len(data) <= 1<<16 {
			// the exact damaged bytes and the entries of the saved cache: `--replay` loads precisely these
			w["damaged_stream_b64"] = base64.StdEncoding.EncodeToString(data)
			w["original_stream_b64"] = base64.StdEncoding.EncodeToString(rn.stream)
			var saved []map[string]any
			for k, sv := range rn.saved {
				saved = append(saved, map[string]any{"key": k, "value": fmt.Sprint(sv.val), "cost": sv.cost, "deadline": sv.deadline})
			}
			w["saved_entries"] = saved
			w["metadata_message_end"] = rn.meta.End
		}
		return w
	}
	where := rn.where(m)
	if panicked != "" {
		r.Violate("loadcache-panicked/"+m.Kind, fmt.Sprintf("LoadCache panicked on a %s mutant at offset %d (%s) of a %d-byte %s stream: %s", m.Kind, m.Off, where, len(rn.stream), rn.shape.Name, firstLine(panicked)), wit())
		return
	}
	identical := bytes.Equal(data, rn.stream)
	viaSfx := ""
	if m.Via != "" {
		viaSfx = "/through-the-" + m.Via + "-cache"
	}
	versionsDiffer := rn.shape.SavedVer != rn.shape.LoadVer
	if lerr != nil {
		rn.rejected++
		if versionsDiffer && !errors.Is(lerr, internal.VersionMismatch) && rn.metaIntact(m, data) {
			r.Violate("version-mismatch-not-reported/metadata-intact", fmt.Sprintf("stream saved as version %d loaded as %d with its metadata message intact (%s mutant at %d, %s): error is %q, not VersionMismatch", rn.shape.SavedVer, rn.shape.LoadVer, m.Kind, m.Off, where, lerr), wit())
		}
	} else {
		rn.accepted++
		r.DistinctHash(hashStr(fmt.Sprintf("accepted/%s/%s/%s", rn.shape.Name, m.Kind, where)))
		if m.Kind == "truncate" && !identical {
			r.Violate("truncated-stream-accepted"+viaSfx, fmt.Sprintf("a %d-byte prefix of a %d-byte %s stream was loaded without error", m.Off, len(rn.stream), rn.shape.Name), wit())
		}
	}
	// whatever the error: what is in the cache now?
	sn := recvStore.VerifSnapshot()
	start := recvStore.VerifClockStartNano()
	if len(sn.Map) > 0 {
		rn.reachedEntries++
		if lerr != nil {
			r.DistinctHash(hashStr(fmt.Sprintf("entries-then-error/%s/%s/%s", rn.shape.Name, m.Kind, where)))
		}
	}
	if versionsDiffer && (lerr == nil || len(sn.Map) > 0) {
		key := "version-mismatch-bypassed"
		if where == "block-header-of-metadata-message" {
			key += "/damage-in-metadata-block-header"
		}
		r.Violate(key, fmt.Sprintf("stream saved as version %d, loaded as version %d after a %s mutant at offset %d (%s): error=%v, %d entries loaded", rn.shape.SavedVer, rn.shape.LoadVer, m.Kind, m.Off, where, lerr, len(sn.Map)), wit())
		return
	}
	// "never invents keys, values or longer lifetimes" holds whether or not an error is returned: entries that
	// were admitted before the damage was noticed must still be entries of the saved cache
	sfx := ""
	if lerr != nil {
		sfx = "/although-an-error-was-returned"
	}
	for _, e := range sn.Map {
		s, ok := rn.saved[e.Key]
		if !ok {
			r.Violate("loaded-invented-key/"+m.Kind+sfx, fmt.Sprintf("%s mutant at %d (%s), LoadCache returned %v: the cache holds key %v, which is not in the saved cache", m.Kind, m.Off, where, lerr, e.Key), wit())
			return
		}
		if s.val != e.Value || s.cost != e.Weight {
			r.Violate("loaded-wrong-value-or-cost/"+m.Kind+sfx, fmt.Sprintf("%s mutant at %d (%s), LoadCache returned %v: key %v loaded with value/cost %v/%d, saved %v/%d", m.Kind, m.Off, where, lerr, e.Key, short(e.Value), e.Weight, short(s.val), s.cost), wit())
			return
		}
		d := int64(0)
		if e.Expire != 0 {
			d = start + e.Expire
		}
		if s.deadline != 0 && (d == 0 || d > s.deadline) {
			key := "loaded-longer-lifetime/" + m.Kind
			if where == "block-header-of-metadata-message" {
				key = "loaded-longer-lifetime/damage-in-metadata-block-header"
			}
			r.Violate(key+sfx, fmt.Sprintf("%s mutant at %d (%s), LoadCache returned %v: key %v saved with deadline %d, loaded with %d (%.1f s later)", m.Kind, m.Off, where, lerr, e.Key, s.deadline, d, float64(d-s.deadline)/1e9), wit())
			return
		}
	}
}

func firstLine(s string) string {
	if i := strings.IndexByte(s, '\n'); i >= 0 {
		s = s[:i]
	}
	if len(s) > 200 {
		s = s[:200]
	}
	return s
}

func short(v any) string {
	s := fmt.Sprint(v)
	if len(s) > 24 {
		return s[:24] + "…"
	}
	return s
}

// where classifies the position of the damage.
func (rn *c12Runner[V]) where(m c12Mutant) string {
	if strings.HasSuffix(m.Kind, "message") || strings.HasSuffix(m.Kind, "messages") {
		return fmt.Sprintf("message-%d-of-%d", m.Off, len(rn.msgs))
	}
	for i, g := range rn.msgs {
		if m.Off >= g.Start && m.Off < g.End {
			if g.TypeDef {
				return "type-descriptor"
			}
			// within a value message: header = everything before the Data bytes; approximate by
			// the first 40 bytes (length prefix, type id, Type, CheckSum, Data length)
			rel := m.Off - g.Start
			if g == rn.meta {
				if rel < 24 {
					return "block-header-of-metadata-message"
				}
				return "payload-of-metadata-message"
			}
			if rel < 24 {
				return fmt.Sprintf("block-header-of-message-%d", clampInt(i, 6))
			}
			return "block-payload"
		}
	}
	return "beyond-messages"
}

func clampInt(i, m int) int {
	if i > m {
		return m
	}
	return i
}

// metaIntact: are the bytes of the metadata message (and everything before it) untouched?
func (rn *c12Runner[V]) metaIntact(m c12Mutant, data []byte) bool {
	e := rn.meta.End
	return len(data) >= e && bytes.Equal(data[:e], rn.stream[:e])
}

func (rn *c12Runner[V]) enumerate(exhaustive bool, sample int) {
	r := rn.r
	rng := r.Rng(int64(len(rn.stream)))
	n := len(rn.stream)
	mine := func(i int) bool { return i%r.NShards == r.Shard }
	cnt := 0
	if exhaustive {
		for off := 0; off < n; off++ { // proper prefixes
			if mine(cnt) {
				rn.try(c12Mutant{Kind: "truncate", Off: off})
			}
			cnt++
		}
		for off := 0; off < n; off++ {
			for bit := 0; bit < 8; bit++ {
				if mine(cnt) {
					rn.try(c12Mutant{Kind: "bitflip", Off: off, Arg: bit})
				}
				cnt++
			}
			for _, v := range []int{0x00, 0xff, rng.Intn(256)} {
				if int(rn.stream[off]) != v {
					if mine(cnt) {
						rn.try(c12Mutant{Kind: "byte", Off: off, Arg: v})
					}
				}
				cnt++
			}
		}
	} else {
		// stratified: every byte of type descriptors and block headers, PRNG offsets elsewhere
		var offs []int
		for _, g := range rn.msgs {
			lim := g.End
			if !g.TypeDef && lim > g.Start+48 {
				lim = g.Start + 48
			}
			for o := g.Start; o < lim; o++ {
				offs = append(offs, o)
			}
		}
		for i := 0; i < sample; i++ {
			offs = append(offs, rng.Intn(n))
		}
		for _, off := range offs {
			bit := rng.Intn(8)
			if mine(cnt) {
				rn.try(c12Mutant{Kind: "bitflip", Off: off, Arg: bit})
			}
			cnt++
		}
		// truncations: around every message boundary and PRNG offsets
		var cuts []int
		for _, g := range rn.msgs {
			for d := -2; d <= 2; d++ {
				if c := g.End + d; c >= 0 && c < n {
					cuts = append(cuts, c)
				}
			}
		}
		for i := 0; i < sample/4; i++ {
			cuts = append(cuts, rng.Intn(n))
		}
		for _, c := range cuts {
			if mine(cnt) {
				rn.try(c12Mutant{Kind: "truncate", Off: c})
			}
			cnt++
		}
	}
	// bursts
	nb := 400
	if !exhaustive {
		nb = sample / 4
	}
	for i := 0; i < nb; i++ {
		m := c12Mutant{Kind: "burst", Off: rng.Intn(n), Arg: rng.Intn(1 << 30), Len: 2 + rng.Intn(63)}
		if mine(cnt) {
			rn.try(m)
		}
		cnt++
	}
	// two cooperating spots: every byte of the type descriptors and of the block headers (what no checksum covers)
	// together with a byte inside an entry block's payload (what the checksum is there for). A decoder that lets
	// the first kind of damage switch the check off is only caught with both.
	{
		var spots, payload []int
		for _, g := range rn.msgs {
			switch {
			case g.TypeDef:
				for o := g.Start; o < g.End; o++ {
					spots = append(spots, o)
				}
			case g != rn.meta && g.End-g.Start > 48:
				for o := g.Start; o < g.Start+24; o++ {
					spots = append(spots, o)
				}
				payload = append(payload, g.Start+40, (g.Start+g.End)/2, g.End-3)
			}
		}
		if !exhaustive && len(payload) > 6 {
			payload = payload[:6]
		}
		for _, o := range spots {
			for pi, po := range payload {
				if po == o {
					continue
				}
				if mine(cnt) {
					rn.try(c12Mutant{Kind: "pair", Off: o, Arg: po, Len: (o + pi) % 8})
				}
				cnt++
			}
		}
	}
	// whole-message surgery
	for i := range rn.msgs {
		for _, k := range []string{"dup-message", "drop-message"} {
			if mine(cnt) {
				rn.try(c12Mutant{Kind: k, Off: i})
			}
			cnt++
		}
		for j := i + 1; j < len(rn.msgs); j++ {
			if mine(cnt) {
				rn.try(c12Mutant{Kind: "swap-messages", Off: i, Arg: j})
			}
			cnt++
		}
	}
	// the unmodified stream as a control
	if mine(cnt) {
		rn.try(c12Mutant{Kind: "byte", Off: 0, Arg: int(rn.stream[0])})
	}
	r.Count("mutants_accepted_without_error", rn.accepted)
	r.Count("mutants_rejected_with_error", rn.rejected)
	r.Count("mutants_that_loaded_entries", rn.reachedEntries)
	r.Count("stream_bytes_"+rn.shape.Name, int64(n))
	r.Sample(10, map[string]any{"shape": rn.shape, "stream_bytes": n, "gob_messages": len(rn.msgs), "saved_entries": len(rn.saved), "accepted": rn.accepted, "rejected": rn.rejected})
}

// c12Replay loads exactly the damaged bytes recorded in a witness (int->int streams) and judges them
// against the saved entries recorded with it.
func c12Replay(r *Run) bool {
	raw, err := os.ReadFile(r.Replay)
	if err != nil {
		return false
	}
	var doc struct {
		Witness struct {
			Shape     c12Shape  `json:"shape"`
			Mutant    c12Mutant `json:"mutant"`
			Damaged   string    `json:"damaged_stream_b64"`
			Original  string    `json:"original_stream_b64"`
			MetaEnd   int       `json:"metadata_message_end"`
			ValueType string    `json:"value_type"`
			Saved     []struct {
				Key      int    `json:"key"`
				Value    string `json:"value"`
				Cost     int64  `json:"cost"`
				Deadline int64  `json:"deadline"`
			} `json:"saved_entries"`
		} `json:"witness"`
	}
	if json.Unmarshal(raw, &doc) != nil || doc.Witness.Damaged == "" || doc.Witness.Shape.Big {
		return false
	}
	data, err1 := base64.StdEncoding.DecodeString(doc.Witness.Damaged)
	orig, err2 := base64.StdEncoding.DecodeString(doc.Witness.Original)
	if err1 != nil || err2 != nil {
		return false
	}
	if doc.Witness.ValueType == "int64" {
		c12ReplayT[int64](r, doc.Witness.Shape, doc.Witness.Mutant, orig, data, func(sv string) int64 { var v int64; fmt.Sscan(sv, &v); return v }, func(f func(int, string, int64, int64)) {
			for _, sv := range doc.Witness.Saved {
				f(sv.Key, sv.Value, sv.Cost, sv.Deadline)
			}
		})
	} else {
		c12ReplayT[int](r, doc.Witness.Shape, doc.Witness.Mutant, orig, data, func(sv string) int { var v int; fmt.Sscan(sv, &v); return v }, func(f func(int, string, int64, int64)) {
			for _, sv := range doc.Witness.Saved {
				f(sv.Key, sv.Value, sv.Cost, sv.Deadline)
			}
		})
	}
	r.Distinct("replay/a")
	r.Distinct("replay/b")
	r.Sample(2, map[string]any{"replayed_mutant": doc.Witness.Mutant, "bytes": len(data)})
	return true
}

func c12ReplayT[V comparable](r *Run, shape c12Shape, m c12Mutant, orig, data []byte, parse func(string) V, each func(func(int, string, int64, int64))) {
	rn := &c12Runner[V]{r: r, shape: shape, stream: orig, saved: map[int]c12Saved[V]{}, via: m.Via}
	each(func(k int, v string, cost, deadline int64) {
		rn.saved[k] = c12Saved[V]{val: parse(v), cost: cost, deadline: deadline}
	})
	rn.msgs = gobMessages(orig)
	for _, m := range rn.msgs {
		if !m.TypeDef {
			rn.meta = m
			break
		}
	}
	r.Rule("replay of one recorded damaged stream (exact bytes, same reader behaviour, same kind of receiving cache) against the saved entries recorded with it")
	rn.tryBytes(m, data)
}

func runC12(r *Run) {
	if r.Replay != "" && c12Replay(r) {
		return
	}
	r.Rule("case = one mutant (truncation / single-bit flip / byte substitution / 2-64 byte burst / duplicated, dropped or swapped gob message) of a stream written by the real SaveCache, loaded into a fresh cache by the real LoadCache and judged on error value and white-box contents. Non-trivial = a mutant the decoder accepted without error, or one that loaded entries before failing; distinct by (stream shape, mutation kind, position class)")
	r.Assume("the unmodified stream loads without error and reproduces the saved entries (control case, also C11's business)",
		"entries admitted before an error is returned are judged like any others (never an invented key, value or longer lifetime); under a version mismatch nothing may be loaded at all")
	small := []c12Shape{
		{Name: "empty", Entries: 0},
		{Name: "one-entry", Entries: 1, TTL: true},
		{Name: "ten-no-ttl", Entries: 10},
		{Name: "ten-ttl-uptime0", Entries: 10, TTL: true},
		{Name: "ten-ttl-uptime1h", Entries: 10, TTL: true, UptimeS: 3600},
		{Name: "version-mismatch-empty", Entries: 0, SavedVer: 1, LoadVer: 2},
		{Name: "version-mismatch-ttl-uptime1h", Entries: 10, TTL: true, UptimeS: 3600, SavedVer: 7, LoadVer: 8},
		// the other direction (a stream newer than its reader: an application rolled back) and the extremes
		{Name: "version-mismatch-newer-stream", Entries: 10, SavedVer: 9, LoadVer: 3},
		{Name: "version-mismatch-newer-stream-vs-zero", Entries: 1, TTL: true, SavedVer: 1, LoadVer: 0},
		{Name: "version-mismatch-max-vs-zero", Entries: 1, SavedVer: ^uint64(0), LoadVer: 0},
		// a full cache saved and loaded into a cache of the same size / a third of it: the receiving cache has no room
		// left while the tail of the stream (further entries, the end block) is still to come
		{Name: "full-cache-same-size", Entries: 12, TTL: true, Full: true},
		{Name: "full-cache-into-a-third", Entries: 12, Full: true, TargetSize: 4},
		{Name: "full-cache-into-size-1", Entries: 6, TTL: true, UptimeS: 3600, Full: true, TargetSize: 1},
	}
	exhaustive := true
	for _, sh := range small {
		rn, err := newC12Runner[int](r, sh, func(i int) int { return i*7 + 1 }, func(i int) int64 { return int64(1 + i%3) })
		if err != nil {
			r.Broken("save %s: %v", sh.Name, err)
			return
		}
		if len(rn.stream) > 4096 {
			exhaustive = false
			rn.enumerate(false, r.Pick(2000, 40000))
		} else {
			rn.enumerate(true, 0)
		}
		rn.done()
	}
	// the same enumeration through the public LoadCache of the other cache kinds (the decoder is shared, the
	// wrappers around it are not): int64 values, three shapes per kind
	for ki, kind := range []string{"loading", "hybrid", "hybrid-loading"} {
		for si, sh := range []c12Shape{
			{Name: "ten-ttl-uptime1h", Entries: 10, TTL: true, UptimeS: 3600},
			{Name: "version-mismatch-ttl", Entries: 6, TTL: true, SavedVer: 4, LoadVer: 5},
			{Name: "full-cache-into-a-third", Entries: 12, TTL: true, Full: true, TargetSize: 4},
		} {
			sh.Name += "/" + kind
			rn, err := newC12Runner[int64](r, sh, func(i int) int64 { return int64(i)*11 + 3 }, func(i int) int64 { return int64(1 + i%3) })
			if err != nil {
				r.Broken("save %s: %v", sh.Name, err)
				return
			}
			rn.via = kind
			_, _ = ki, si
			rn.enumerate(len(rn.stream) <= 4096, 2000)
			rn.done()
		}
	}
	// multi-block: values of 1 MiB so that 10 entries span >= 3 blocks of 4 MiB
	big := c12Shape{Name: "multi-block-ttl-uptime1h", Entries: 10, TTL: true, UptimeS: 3600, Big: true}
	blob := strings.Repeat("theine-verif-", 1<<20/13)
	rn, err := newC12Runner[string](r, big, func(i int) string { return fmt.Sprintf("%04d", i) + blob }, func(i int) int64 { return 1 })
	if err != nil {
		r.Broken("save %s: %v", big.Name, err)
		return
	}
	r.Info("multi_block_messages", len(rn.msgs))
	rn.enumerate(false, r.Pick(160, 4000))
	rn.done()
	r.Exhaustive(exhaustive && false) // small sets are complete, the multi-block set is sampled: never claim the whole run exhaustive
	r.Info("small_streams_enumerated_completely", exhaustive)
}
