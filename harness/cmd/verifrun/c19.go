package main

import (
	"context"
	"fmt"
	"io"
	"math/rand"
	"runtime"
	"sort"
	"strings"
	"sync"
	"sync/atomic"
	"time"

	theine "github.com/Yiling-J/theine-go"
)

// C19 — no data races in the default configuration (entry pool off).
//
// The oracle is the Go race detector: this monitor is only the hostile
// workload. It is built with -race by the driver, which counts the reports in
// the race log. The workload deliberately avoids harness-side synchronisation
// on the operation path (no shared atomics, no locks: they would create
// happens-before edges and hide races); per-goroutine logs with monotonic
// timestamps are merged afterwards to show which operation types actually
// overlapped in time.

func init() { registry["C19"] = runC19 }

const (
	c19Get = iota
	c19Set
	c19SetTTL
	c19Delete
	c19Range
	c19Len
	c19EstSize
	c19Stats
	c19Wait
	c19Save
	c19Close
	c19LoadGet
	c19N
)

var c19Names = [...]string{"Get", "Set", "SetWithTTL", "Delete", "Range", "Len", "EstimatedSize", "Stats", "Wait", "SaveCache", "Close", "LoadingGet"}

type c19Rec struct {
	op     uint8
	t0, t1 int64
}

type c19Sec struct {
	mu sync.Mutex
	m  map[int][3]int64
}

func (s *c19Sec) Get(k int) (int64, int64, int64, bool, error) {
	s.mu.Lock()
	defer s.mu.Unlock()
	v, ok := s.m[k]
	return v[0], v[1], v[2], ok, nil
}
func (s *c19Sec) Set(k int, v int64, cost int64, expire int64) error {
	s.mu.Lock()
	s.m[k] = [3]int64{v, cost, expire}
	s.mu.Unlock()
	return nil
}
func (s *c19Sec) Delete(k int) error {
	s.mu.Lock()
	delete(s.m, k)
	s.mu.Unlock()
	return nil
}
func (s *c19Sec) HandleAsyncError(err error) {}

type c19API struct {
	get    func(k int)
	set    func(k int, v int64, ttl time.Duration)
	del    func(k int)
	rangef func(f func(int, int64) bool)
	length func() int
	est    func() int
	stats  func()
	wait   func()
	save   func(w io.Writer) error
	close  func()
}

// c19Prob is the admission probability of the hybrid caches built next: below 1 the cache draws a random number
// per evicted entry, from a generator that is not safe for concurrent use.
var c19Prob atomic.Int32 // per cent

// c19Opts selects builder options of the caches built next: bit 0 = doorkeeper on, bit 1 = a cost function instead of
// explicit costs, bit 2 = the loader fails or panics now and then.
var c19Opts atomic.Int32

func c19Cost(opts int32) int64 {
	if opts&2 != 0 {
		return 0 // the cost function decides
	}
	return 1
}

func c19Build(kind string, maxSize int64, notes *atomic.Int64) (*c19API, error) {
	prob := float32(c19Prob.Load()) / 100
	if prob <= 0 {
		prob = 1
	}
	listener := func(k int, v int64, r theine.RemoveReason) { notes.Add(1) }
	opts := c19Opts.Load()
	var loadSeq atomic.Int64
	loader := func(ctx context.Context, k int) (theine.Loaded[int64], error) {
		if opts&4 != 0 {
			switch n := loadSeq.Add(1); {
			case n%11 == 0:
				return theine.Loaded[int64]{}, fmt.Errorf("load %d failed", n)
			case n%53 == 0:
				panic(fmt.Sprintf("load %d panicked", n))
			}
		}
		var ttl time.Duration
		if k%5 == 0 {
			ttl = time.Duration(1+k%3000) * time.Microsecond
		}
		return theine.Loaded[int64]{Value: int64(k) * 3, Cost: 1, TTL: ttl}, nil
	}
	b := theine.NewBuilder[int, int64](maxSize).RemovalListener(listener)
	if opts&1 != 0 {
		b = b.Doorkeeper(true)
	}
	if opts&2 != 0 {
		b = b.Cost(func(v int64) int64 { return 1 + v&1 })
	}
	// a loader panic reaches the caller as a panic of Get: the workload goroutine survives it
	safely := func(f func()) {
		defer func() { _ = recover() }()
		f()
	}
	switch kind {
	case "plain":
		c, err := b.Build()
		if err != nil {
			return nil, err
		}
		return &c19API{get: func(k int) { c.Get(k) }, set: func(k int, v int64, ttl time.Duration) { c.SetWithTTL(k, v, c19Cost(opts), ttl) }, del: c.Delete,
			rangef: c.Range, length: c.Len, est: c.EstimatedSize, stats: func() { s := c.Stats(); _ = s.Hits() + s.Misses() }, wait: c.Wait,
			save: func(w io.Writer) error { return c.SaveCache(0, w) }, close: c.Close}, nil
	case "loading":
		c, err := b.Loading(loader).Build()
		if err != nil {
			return nil, err
		}
		return &c19API{get: func(k int) { safely(func() { _, _ = c.Get(context.Background(), k) }) }, set: func(k int, v int64, ttl time.Duration) { c.SetWithTTL(k, v, c19Cost(opts), ttl) }, del: c.Delete,
			rangef: c.Range, length: c.Len, est: c.EstimatedSize, stats: func() { s := c.Stats(); _ = s.Hits() + s.Misses() }, wait: c.Wait,
			save: func(w io.Writer) error { return c.SaveCache(0, w) }, close: c.Close}, nil
	case "hybrid":
		sec := &c19Sec{m: map[int][3]int64{}}
		c, err := b.Hybrid(sec).Workers(2).AdmProbability(prob).Build()
		if err != nil {
			return nil, err
		}
		return &c19API{get: func(k int) { _, _, _ = c.Get(k) }, set: func(k int, v int64, ttl time.Duration) { c.SetWithTTL(k, v, c19Cost(opts), ttl) }, del: func(k int) { _ = c.Delete(k) },
			save: func(w io.Writer) error { return c.SaveCache(0, w) }, close: func() { c.Close(); c.VerifStore().Close() }}, nil
	case "hybrid-loading":
		sec := &c19Sec{m: map[int][3]int64{}}
		c, err := b.Hybrid(sec).Workers(4).AdmProbability(prob).Loading(loader).Build()
		if err != nil {
			return nil, err
		}
		return &c19API{get: func(k int) { safely(func() { _, _ = c.Get(context.Background(), k) }) }, set: func(k int, v int64, ttl time.Duration) { c.SetWithTTL(k, v, c19Cost(opts), ttl) }, del: func(k int) { _ = c.Delete(k) },
			save: func(w io.Writer) error { return c.SaveCache(0, w) }, close: c.Close}, nil
	}
	return nil, fmt.Errorf("unknown kind %s", kind)
}

func c19Workload(r *Run, idx int, kind string, maxSize int64, G, ops, keys int) {
	var notes atomic.Int64
	api, err := c19Build(kind, maxSize, &notes)
	if err != nil {
		r.Broken("build: %v", err)
		return
	}
	base := time.Now()
	now := func() int64 { return int64(time.Since(base)) }
	logs := make([][]c19Rec, G+3)
	var wg sync.WaitGroup
	writersDone := make(chan struct{})
	var writers sync.WaitGroup
	seedBase := r.Seed*7919 + int64(idx)*104729
	for g := 0; g < G; g++ {
		wg.Add(1)
		writers.Add(1)
		go func(g int) {
			defer wg.Done()
			defer writers.Done()
			wr := rand.New(rand.NewSource(seedBase + int64(g)))
			lg := make([]c19Rec, 0, ops)
			for i := 0; i < ops; i++ {
				k := wr.Intn(keys)
				var op uint8
				t0 := now()
				switch x := wr.Intn(1000); {
				case x < 400:
					op = c19Get
					if kind == "loading" || kind == "hybrid-loading" {
						op = c19LoadGet
					}
					api.get(k)
				case x < 620:
					op = c19Set
					api.set(k, int64(g)<<32|int64(i), 0)
				case x < 740:
					op = c19SetTTL
					api.set(k, int64(g)<<32|int64(i), time.Duration(1+wr.Intn(4000))*time.Microsecond)
				case x < 900:
					op = c19Delete
					api.del(k)
				case x < 930 && api.rangef != nil:
					op = c19Range
					n := 0
					api.rangef(func(int, int64) bool { n++; return n < 50 })
				case x < 960 && api.length != nil:
					op = c19Len
					_ = api.length()
				case x < 980 && api.est != nil:
					op = c19EstSize
					_ = api.est()
				case api.stats != nil:
					op = c19Stats
					api.stats()
				default:
					op = c19Get
					api.get(k)
				}
				lg = append(lg, c19Rec{op, t0, now()})
			}
			logs[g] = lg
		}(g)
	}
	// one goroutine calls Wait (concurrent Wait is C20's business), one saves the cache
	if api.wait != nil {
		wg.Add(1)
		go func() {
			defer wg.Done()
			var lg []c19Rec
			for {
				select {
				case <-writersDone:
					logs[G] = lg
					return
				default:
				}
				t0 := now()
				api.wait()
				lg = append(lg, c19Rec{c19Wait, t0, now()})
				runtime.Gosched()
			}
		}()
	}
	wg.Add(1)
	go func() {
		defer wg.Done()
		var lg []c19Rec
		for {
			select {
			case <-writersDone:
				logs[G+1] = lg
				return
			default:
			}
			t0 := now()
			_ = api.save(io.Discard)
			lg = append(lg, c19Rec{c19Save, t0, now()})
			time.Sleep(time.Duration(200+idx%5*100) * time.Microsecond)
		}
	}()
	go func() { writers.Wait(); close(writersDone) }()
	wg.Wait()
	// Close races with readers (even workloads) or with every kind of call (odd workloads): writers, Wait, SaveCache
	// and the size views are in flight when Close lands and go on for a moment after it has returned.
	mixed := idx%2 == 1
	var rg sync.WaitGroup
	stop := make(chan struct{})
	closers := 4
	if mixed {
		closers = 6
	}
	closeLogs := make([][]c19Rec, closers)
	for g := 0; g < closers; g++ {
		rg.Add(1)
		go func(g int) {
			defer rg.Done()
			var lg []c19Rec
			defer func() { closeLogs[g] = lg }()
			for i := 0; ; i++ {
				select {
				case <-stop:
					return
				default:
				}
				if !mixed {
					api.get(i % keys)
					if api.length != nil && i%16 == 0 {
						_ = api.length()
						api.stats()
						if i%64 == 0 {
							api.rangef(func(int, int64) bool { return true })
							_ = api.est()
						}
					}
					continue
				}
				t0 := now()
				var op uint8
				switch (i + g) % 8 {
				case 0, 6:
					op = c19Set
					api.set((i*7+g)%keys, int64(g)<<32|int64(i), 0)
				case 1, 4:
					op = c19Get
					api.get(i % keys)
				case 2:
					op = c19Delete
					api.del((i*3 + g) % keys)
				case 3:
					op = c19SetTTL
					api.set((i*5+g)%keys, int64(g)<<32|int64(i), time.Duration(1+i%3000)*time.Microsecond)
				case 5:
					if g == 0 && api.wait != nil {
						op = c19Wait
						api.wait()
					} else if g == 1 {
						op = c19Save
						_ = api.save(io.Discard)
					} else {
						op = c19Get
						api.get(i % keys)
					}
				default:
					op = c19Get
					if api.length != nil {
						op = c19Len
						_ = api.length()
						api.stats()
						_ = api.est()
						api.rangef(func(int, int64) bool { return true })
					} else {
						api.get(i % keys)
					}
				}
				lg = append(lg, c19Rec{op, t0, now()})
			}
		}(g)
	}
	time.Sleep(2 * time.Millisecond)
	t0 := now()
	api.close()
	t1 := now()
	logs[G+2] = []c19Rec{{c19Close, t0, t1}}
	time.Sleep(time.Millisecond)
	close(stop)
	rg.Wait()
	if mixed {
		r.Count("closes_racing_writers_wait_and_save", 1)
		for _, lg := range closeLogs {
			for _, rec := range lg {
				if rec.t0 < t1 && rec.t1 > t0 {
					r.Distinct(kind + "/Closex" + c19Names[rec.op] + "/in-flight")
				}
			}
			logs = append(logs, lg)
		}
	}

	// ---- which op types overlapped in time
	var all []c19Rec
	for _, lg := range logs {
		all = append(all, lg...)
	}
	sort.Slice(all, func(i, j int) bool { return all[i].t0 < all[j].t0 })
	var matrix [c19N][c19N]bool
	// sweep: keep, per op type, the latest end time seen among earlier-starting ops
	var lastEnd [c19N]int64
	for _, rec := range all {
		for t := 0; t < c19N; t++ {
			if lastEnd[t] > rec.t0 {
				matrix[t][rec.op], matrix[rec.op][t] = true, true
			}
		}
		if rec.t1 > lastEnd[rec.op] {
			lastEnd[rec.op] = rec.t1
		}
	}
	// Close overlapped the reader goroutines by construction (they ran until after it returned)
	matrix[c19Close][c19Get], matrix[c19Get][c19Close] = true, true
	cells := 0
	var cellNames []string
	for a := 0; a < c19N; a++ {
		for b := a; b < c19N; b++ {
			if matrix[a][b] {
				cells++
				cellNames = append(cellNames, c19Names[a]+"x"+c19Names[b])
				r.Distinct(kind + "/" + c19Names[a] + "x" + c19Names[b])
			}
		}
	}
	r.Eval(1)
	r.Count("operations", int64(len(all)))
	r.Count("listener_calls", notes.Load())
	r.CountMax("max_overlap_cells_in_one_run", int64(cells))
	r.Sample(3, map[string]any{"kind": kind, "maxsize": maxSize, "goroutines": G, "ops_per_goroutine": ops, "keys": keys, "gomaxprocs": runtime.GOMAXPROCS(0),
		"operations": len(all), "overlapping_op_type_pairs": cellNames})
}

func runC19(r *Run) {
	r.Rule("case = one hostile concurrent run under the race detector (all API operations incl. Range/Len/EstimatedSize/Stats/Wait/SaveCache and a Close racing readers or, every other run, writers + Wait + SaveCache; removal listener installed; doorkeeper / cost function / failing and panicking loader varied; plain / loading / hybrid / hybrid-loading; tiny and large MaxSize; short TTLs). " +
		"distinct_nontrivial = distinct (cache kind, op type x op type) cells whose operations were observed overlapping in time (from per-goroutine monotonic timestamps)")
	r.Assume("oracle = Go race detector (reports are counted by the driver from the race log; reports with a theine frame are violations)",
		"no harness-side synchronisation on the operation path; only one goroutine calls Wait; Close races readers in the even workloads and writers, Wait, SaveCache and the size views in the odd ones",
		"LoadCache is not part of the property's operation list and is not mixed in")
	kinds := []string{"plain", "loading", "hybrid", "hybrid-loading"}
	sizes := []int64{2, 64, 5000}
	reps := mustAtoi(r.Args["reps"], 1)
	// Long-lived caches: the periodic maintenance tick (1 s) only ever runs in a cache that lives that long, so
	// one cache of each kind is built now, written to a little, left alone while the workloads below run, and
	// closed at the end from a goroutine that shares no lock with its ticker: a Close that touches what the tick
	// reads without the tick's lock is then an unordered pair for the detector.
	type idler struct {
		kind string
		api  *c19API
		born time.Time
	}
	var idlers []idler
	var idleNotes atomic.Int64
	for _, kind := range kinds {
		api, err := c19Build(kind, 64, &idleNotes)
		if err != nil {
			r.Broken("build: %v", err)
			return
		}
		for k := 0; k < 200; k++ {
			api.set(k, int64(k), time.Duration(k%3)*1500*time.Millisecond)
		}
		idlers = append(idlers, idler{kind, api, time.Now()})
	}
	defer func() {
		for _, id := range idlers {
			if d := time.Until(id.born.Add(2500 * time.Millisecond)); d > 0 {
				time.Sleep(d)
			}
			lived := time.Since(id.born)
			done := make(chan struct{})
			go func() { id.api.close(); close(done) }()
			<-done
			r.Count("long_lived_caches_closed", 1)
			r.CountMax("long_lived_cache_age_ms_max", lived.Milliseconds())
			r.Distinct(id.kind + "/Close-after-maintenance-ticks")
		}
	}()
	for rep := 0; rep < reps; rep++ {
		idx := r.Shard*reps + rep
		kind := kinds[idx%len(kinds)]
		size := sizes[(idx/len(kinds))%len(sizes)]
		G := []int{8, 16, 32}[idx%3]
		ops := r.Pick(6000, 12000)
		keys := []int{4, 64, 2000}[(idx/2)%3]
		// every other hybrid cache admits evicted entries to the secondary tier with probability 0.6
		c19Prob.Store([]int32{60, 100}[(idx/len(kinds))%2])
		if strings.HasPrefix(kind, "hybrid") && c19Prob.Load() < 100 {
			r.Count("hybrid_workloads_with_admission_probability_below_1", 1)
		}
		// builder options: doorkeeper / cost function / failing loader, varied independently of the kind
		c19Opts.Store([]int32{0, 1, 2, 4, 3, 5, 6, 7, 4, 0, 5, 2}[(idx+idx/12)%12])
		if o := c19Opts.Load(); o != 0 {
			r.Count(fmt.Sprintf("workloads_with_builder_options_%03b(failing-loader,cost-function,doorkeeper)", o), 1)
		}
		c19Workload(r, idx, kind, size, G, ops, keys)
	}
}
