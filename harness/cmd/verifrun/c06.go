package main

import (
	"context"
	"fmt"
	"strings"
	"time"

	theine "github.com/Yiling-J/theine-go"
	"github.com/Yiling-J/theine-go/internal"
)

// C06 — a successful Set is visible and is never lost without a reason.
//
// Reference-model monitor over sequential client histories (so the order of
// events equals the order of operations). The generator keeps the model's
// occupancy (live keys plus expired-but-not-yet-reclaimed ones) within MaxSize,
// so no eviction is ever justified: every live key must be readable at every
// probe, the listener must never say EVICTED, Set may return false only for
// cost > MaxSize or a first sight by the doorkeeper, and an oversize value is
// never admitted by Set, cost function or loader.

func init() { registry["C06"] = runC06 }

type c06Ent struct {
	val      int64
	cost     int64
	dLo, dHi int64 // deadline bounds in virtual time; 0,0 = none; dHi == -1: unknown upper bound (TTL-less Set over a running TTL)
}

type c06Case struct {
	Kind       string `json:"cache"`
	MaxSize    int64  `json:"maxsize"`
	Doorkeeper bool   `json:"doorkeeper"`
	CostFn     bool   `json:"cost_function"`
	Steps      int    `json:"steps"`
	NearDL     int    `json:"writes_near_earlier_deadline"`
	Oversize   int    `json:"oversize_attempts"`
}

type c06Run struct {
	r     *Run
	cs    c06Case
	c     *theine.Cache[int, int64]
	lc    *theine.LoadingCache[int, int64]
	st    *internal.Store[int, int64]
	nl    *noteLog[int, int64]
	model map[int]*c06Ent
	// expired in the model but not yet notified as EXPIRED: still occupies the policy
	trace    []string
	seq      int64
	bad      bool
	loads    int
	nextLoad struct {
		cost int64
		ttl  time.Duration
	}
	consumed int
}

func (x *c06Run) note(f string, a ...any) {
	if len(x.trace) > 600 {
		x.trace = x.trace[200:]
	}
	x.trace = append(x.trace, fmt.Sprintf(f, a...))
}

func (x *c06Run) fail(key, what string) {
	x.bad = true
	t := x.trace
	if len(t) > 60 {
		t = t[len(t)-60:]
	}
	x.r.Violate(key, what, map[string]any{"case": x.cs, "last_ops": t, "now": x.st.VerifNowNano()})
}

func (x *c06Run) newVal(cost int64) int64 {
	x.seq++
	return x.seq<<20 | (cost & 0xfffff)
}

func (x *c06Run) rawGet(k int) (int64, bool) {
	if x.c != nil {
		return x.c.Get(k)
	}
	// on the loading cache a plain read must not trigger the loader: use Range
	var v int64
	var ok bool
	x.lc.Range(func(rk int, rv int64) bool {
		if rk == k {
			v, ok = rv, true
			return false
		}
		return true
	})
	return v, ok
}

func (x *c06Run) occupancy() int64 {
	var s int64
	for _, e := range x.model {
		s += e.cost
	}
	return s
}

// syncNotes consumes listener notifications: EXPIRED frees occupancy, EVICTED is never justified here.
func (x *c06Run) syncNotes() {
	notes := x.nl.snapshot()
	for _, n := range notes[x.consumed:] {
		e := x.model[n.Key]
		switch n.Reason {
		case theine.EVICTED:
			x.fail("evicted-below-capacity", fmt.Sprintf("listener reports EVICTED for key %d value %#x although the total cost of live keys (%d) never exceeded MaxSize %d", n.Key, n.Val, x.occupancy(), x.cs.MaxSize))
		case theine.EXPIRED:
			if e != nil && e.val == n.Val {
				now := x.st.VerifNowNano()
				if e.dLo == 0 && e.dHi == 0 {
					x.fail("expired-without-ttl", fmt.Sprintf("key %d value %#x was stored by a call without TTL onto an absent/expired key, yet it was reclaimed as EXPIRED", n.Key, n.Val))
				} else if now < e.dLo {
					x.fail("expired-before-deadline", fmt.Sprintf("key %d value %#x reclaimed as EXPIRED at %d, before its deadline %d", n.Key, n.Val, now, e.dLo))
				}
				delete(x.model, n.Key)
			}
		}
	}
	x.consumed = len(notes)
}

func (x *c06Run) wait() {
	if x.c != nil {
		x.c.Wait()
	} else {
		x.lc.Wait()
	}
}

// probe: every key the model holds and whose deadline has certainly not passed must be readable with its value.
func (x *c06Run) probe(why string) {
	x.wait()
	x.syncNotes()
	now := x.st.VerifNowNano()
	for k, e := range x.model {
		if x.bad {
			return
		}
		v, ok := x.rawGet(k)
		expiredForSure := e.dHi > 0 && now >= e.dHi
		aliveForSure := (e.dLo == 0 && e.dHi == 0) || (e.dLo > 0 && x.st.VerifNowNano() < e.dLo)
		switch {
		case ok && v != e.val:
			x.fail("wrong-value", fmt.Sprintf("%s: key %d reads %#x, model says %#x", why, k, v, e.val))
		case !ok && aliveForSure:
			cause := "lost-without-reason"
			if e.dLo == 0 {
				cause += "/no-ttl"
			}
			x.fail(cause, fmt.Sprintf("%s: key %d value %#x (cost %d) is no longer readable although it was not deleted, its deadline has not passed (deadline %d, now %d) and occupancy %d <= MaxSize %d",
				why, k, e.val, e.cost, e.dLo, now, x.occupancy(), x.cs.MaxSize))
		case ok && expiredForSure:
			x.fail("served-after-deadline", fmt.Sprintf("%s: key %d still readable at %d, deadline %d", why, k, now, e.dHi))
		}
	}
	// cost accounting view
	if x.bad {
		return
	}
}

func (x *c06Run) doSet(k int, cost int64, ttl time.Duration, useCostFn bool) {
	v := x.newVal(cost)
	argCost := cost
	if useCostFn {
		argCost = 0
	}
	before := x.st.VerifNowNano()
	old := x.model[k]
	oldV, oldOK := x.rawGet(k)
	var ok bool
	switch {
	case x.c != nil && ttl != 0:
		ok = x.c.SetWithTTL(k, v, argCost, ttl)
	case x.c != nil:
		ok = x.c.Set(k, v, argCost)
	case ttl != 0:
		ok = x.lc.SetWithTTL(k, v, argCost, ttl)
	default:
		ok = x.lc.Set(k, v, argCost)
	}
	after := x.st.VerifNowNano()
	x.note("Set(k%d,%#x,cost=%d,costfn=%v,ttl=%v)->%v at %d", k, v, cost, useCostFn, ttl, ok, after)
	oldExpired := old != nil && old.dHi > 0 && before >= old.dLo // may have expired already
	switch {
	case cost > x.cs.MaxSize:
		x.cs.Oversize++
		if ok {
			x.fail("oversize-set-accepted", fmt.Sprintf("Set with cost %d > MaxSize %d returned true", cost, x.cs.MaxSize))
			return
		}
		nv, nok := x.rawGet(k)
		// a value that carries (or may still carry) a deadline can reach it between the two reads: real time runs on
		mayHaveExpired := oldOK && !nok && old != nil && old.dLo != 0 && x.st.VerifNowNano() >= old.dLo
		if (nok != oldOK || (nok && nv != oldV)) && !mayHaveExpired {
			x.fail("rejected-set-changed-state", fmt.Sprintf("Set(k%d) was rejected for cost %d > MaxSize but Get changed from (%#x,%v) to (%#x,%v)", k, cost, oldV, oldOK, nv, nok))
		}
		return
	case !ok:
		absent := old == nil || oldExpired
		if !(x.cs.Doorkeeper && (absent || !oldOK)) {
			x.fail("set-false-without-reason", fmt.Sprintf("Set(k%d, cost %d <= MaxSize %d) returned false; doorkeeper=%v, key resident in model=%v", k, cost, x.cs.MaxSize, x.cs.Doorkeeper, old != nil))
			return
		}
		if nv, nok := x.rawGet(k); nok && (!oldOK || nv != oldV) {
			x.fail("rejected-set-changed-state", fmt.Sprintf("Set(k%d) returned false but the key now reads %#x", k, nv))
		}
		return
	}
	// accepted
	e := &c06Ent{val: v, cost: cost}
	hadDL := old != nil && (old.dLo != 0 || old.dHi != 0)
	switch {
	case ttl != 0:
		e.dLo, e.dHi = before+int64(ttl), after+int64(ttl)
	case hadDL && old.dHi > 0 && before >= old.dHi:
		// previous value certainly past its deadline: fresh entry governed by this call (no deadline)
		x.cs.NearDL++
	case hadDL:
		// TTL-less Set over a value whose TTL is (or may be) still running: unspecified whether the old deadline stays
		e.dLo, e.dHi = old.dLo, -1
	}
	if old != nil && old.dHi != 0 && ttl != 0 && before >= old.dLo-int64(2*time.Second) {
		x.cs.NearDL++
	}
	x.model[k] = e
	// immediately readable
	nv, nok := x.rawGet(k)
	nowR := x.st.VerifNowNano()
	if (!nok || nv != v) && (e.dLo == 0 || nowR < e.dLo) {
		cause := "set-true-not-readable"
		if old != nil && old.dHi != 0 && ttl == 0 {
			cause += "/ttl-less-set-over-expired-value"
		}
		x.fail(cause, fmt.Sprintf("Set(k%d,%#x,ttl=%v) returned true but an immediate read gives (%#x,%v); previous value %+v", k, v, ttl, nv, nok, old))
	}
}

func (x *c06Run) doDelete(k int) {
	if x.c != nil {
		x.c.Delete(k)
	} else {
		x.lc.Delete(k)
	}
	x.note("Delete(k%d)", k)
	delete(x.model, k)
	if v, ok := x.rawGet(k); ok {
		x.fail("readable-after-delete", fmt.Sprintf("key %d reads %#x right after Delete returned", k, v))
	}
}

// doLoad: loading Get on a key absent from the model; the loader returns the prepared cost/ttl.
func (x *c06Run) doLoad(k int, cost int64, ttl time.Duration) {
	x.nextLoad.cost, x.nextLoad.ttl = cost, ttl
	loadsBefore := x.loads
	before := x.st.VerifNowNano()
	snBefore := x.st.VerifSnapshot()
	v, err := x.lc.Get(context.Background(), k)
	after := x.st.VerifNowNano()
	x.note("LoadingGet(k%d) loader cost=%d ttl=%v -> %#x err=%v loads=%d", k, cost, ttl, v, err, x.loads-loadsBefore)
	if err != nil {
		x.fail("load-error", fmt.Sprintf("loading Get returned %v", err))
		return
	}
	if x.loads != loadsBefore+1 {
		x.fail("loader-not-called", fmt.Sprintf("loading Get of absent key %d did not call the loader exactly once (%d calls)", k, x.loads-loadsBefore))
		return
	}
	if cost > x.cs.MaxSize {
		x.cs.Oversize++
		x.wait()
		sn := x.st.VerifSnapshot()
		for _, e := range sn.Map {
			if e.Key == k {
				x.fail("oversize-load-admitted", fmt.Sprintf("loader returned cost %d > MaxSize %d for key %d and the value became resident", cost, x.cs.MaxSize, k))
				return
			}
		}
		after := map[int]bool{}
		for _, e := range sn.Map {
			after[e.Key] = true
		}
		for _, e := range snBefore.Map {
			if !after[e.Key] && (e.Expire == 0 || e.Expire > sn.Now) {
				x.fail("oversize-load-displaced-residents", fmt.Sprintf("loader returned cost %d > MaxSize %d: resident key %d (no deadline due) disappeared", cost, x.cs.MaxSize, e.Key))
				return
			}
		}
		// the next Get must call the loader again
		x.nextLoad.cost, x.nextLoad.ttl = 1, 0
		lb := x.loads
		if x.occupancy()+1 <= x.cs.MaxSize {
			v2, _ := x.lc.Get(context.Background(), k)
			if x.loads != lb+1 {
				x.fail("oversize-load-cached", fmt.Sprintf("after an oversize load the next Get of key %d did not call the loader", k))
				return
			}
			if rv, resident := x.rawGet(k); resident && rv == v2 {
				x.model[k] = &c06Ent{val: v2, cost: 1}
			} else if !x.cs.Doorkeeper {
				x.fail("load-not-stored", fmt.Sprintf("reload of key %d after an oversize load: value %#x (cost 1) is not readable", k, v2))
			}
		}
		return
	}
	e := &c06Ent{val: v, cost: cost}
	if ttl != 0 {
		e.dLo, e.dHi = before+int64(ttl), after+int64(ttl)
	}
	if rv, resident := x.rawGet(k); !resident || rv != v {
		if x.cs.Doorkeeper {
			return // first sight by the doorkeeper: the loaded value is handed out but not stored
		}
		if ttl == 0 || x.st.VerifNowNano() < e.dLo {
			x.fail("load-not-stored", fmt.Sprintf("loader value %#x (cost %d <= MaxSize %d, ttl %v) for key %d is not readable right after the loading Get returned", v, cost, x.cs.MaxSize, ttl, k))
		}
		return
	}
	x.model[k] = e
}

func c06Sequence(r *Run, idx int) {
	rng := r.Rng(int64(idx))
	cs := c06Case{Kind: []string{"plain", "plain", "loading"}[rng.Intn(3)], MaxSize: []int64{1, 2, 10, 100}[rng.Intn(4)], Doorkeeper: rng.Intn(3) == 0, CostFn: rng.Intn(2) == 0}
	x := &c06Run{r: r, cs: cs, nl: &noteLog[int, int64]{}, model: map[int]*c06Ent{}}
	b := theine.NewBuilder[int, int64](cs.MaxSize).Doorkeeper(cs.Doorkeeper).RemovalListener(x.nl.listener())
	if cs.CostFn {
		b = b.Cost(func(v int64) int64 { return v & 0xfffff })
	}
	if cs.Kind == "plain" {
		c, err := b.Build()
		if err != nil {
			r.Broken("build: %v", err)
			return
		}
		x.c, x.st = c, c.VerifStore()
		defer c.Close()
	} else {
		lc, err := b.Loading(func(ctx context.Context, k int) (theine.Loaded[int64], error) {
			x.loads++
			c := x.nextLoad.cost
			v := x.newVal(c)
			lc := c
			if cs.CostFn && c <= 0xfffff && x.loads%2 == 0 {
				lc = 0 // let the cost function decide
			}
			return theine.Loaded[int64]{Value: v, Cost: lc, TTL: x.nextLoad.ttl}, nil
		}).Build()
		if err != nil {
			r.Broken("build: %v", err)
			return
		}
		x.lc, x.st = lc, lc.VerifStore()
		defer lc.Close()
	}
	nkeys := 2 + rng.Intn(5)
	steps := 40
	var kinds strings.Builder
	var staleFor time.Duration // how long the cached clock has not been refreshed (virtual time)
	pickTTL := func() time.Duration {
		switch rng.Intn(4) {
		case 0:
			return time.Duration(1+rng.Intn(900)) * time.Millisecond
		case 1:
			return time.Duration(1+rng.Intn(5)) * time.Second
		default:
			return time.Duration(1+rng.Intn(100)) * time.Second
		}
	}
	for s := 0; s < steps && !x.bad; s++ {
		k := rng.Intn(nkeys)
		switch op := rng.Intn(100); {
		case op < 38:
			// Set / SetWithTTL with a cost that keeps occupancy within MaxSize (or deliberately oversize)
			x.syncNotes()
			var cost int64
			if rng.Intn(8) == 0 {
				cost = cs.MaxSize + 1 + rng.Int63n(5)
			} else {
				room := cs.MaxSize - x.occupancy()
				if e := x.model[k]; e != nil {
					room += e.cost
				}
				if room < 1 {
					x.doDelete(k)
					kinds.WriteByte('d')
					continue
				}
				cost = 1 + rng.Int63n(room)
				if rng.Intn(2) == 0 {
					cost = 1
				}
			}
			var ttl time.Duration
			if rng.Intn(2) == 0 {
				ttl = pickTTL()
			}
			x.doSet(k, cost, ttl, cs.CostFn && rng.Intn(2) == 0)
			kinds.WriteByte('s')
		case op < 50:
			x.doDelete(k)
			kinds.WriteByte('d')
		case op < 62 && x.lc != nil:
			x.syncNotes()
			if _, present := x.rawGet(k); present || x.model[k] != nil {
				continue
			}
			var cost int64
			if rng.Intn(4) == 0 {
				cost = cs.MaxSize + 1 + rng.Int63n(400)
			} else {
				room := cs.MaxSize - x.occupancy()
				if room < 1 {
					continue
				}
				cost = 1 + rng.Int63n(room)
			}
			var ttl time.Duration
			if rng.Intn(2) == 0 {
				ttl = pickTTL()
			}
			x.doLoad(k, cost, ttl)
			kinds.WriteByte('l')
		case op < 80:
			d := time.Duration(100+rng.Intn(3000)) * time.Millisecond
			x.wait()
			x.st.VerifShiftClock(d, true)
			// a healthy ticker refreshes the cached clock once per second: between two ticks it is up to a
			// second old. Sub-second steps may therefore leave it stale (cumulatively < 0.9 s); longer
			// staleness is C03's business. The oracle stays exact: reads consult the precise clock whenever
			// a deadline is within 30 s of the cached one.
			if staleFor+d < 900*time.Millisecond && rng.Intn(2) == 0 {
				staleFor += d
				x.note("time +%v (cached clock not refreshed, %v old)", d, staleFor)
			} else {
				staleFor = 0
				x.st.VerifRefreshClock()
				x.note("time +%v", d)
			}
			kinds.WriteByte('t')
			x.probe("after time step")
		case op < 90:
			x.wait()
			x.st.VerifTick()
			staleFor = 0
			x.note("tick")
			kinds.WriteByte('T')
			x.probe("after tick")
		default:
			x.probe("probe")
			kinds.WriteByte('p')
		}
		cs.Steps++
	}
	if !x.bad {
		// run the clock across every short deadline, tick, and probe once more
		x.wait()
		x.st.VerifShiftClock(7*time.Second, true)
		x.st.VerifRefreshClock()
		x.st.VerifTick()
		x.probe("final probe")
		if !x.bad {
			x.wait()
			sn := x.st.VerifSnapshot()
			for _, is := range checkQuiescent(sn, -1, true) {
				x.fail("quiescent/"+is.Key, is.What)
			}
		}
	}
	x.cs.Steps = cs.Steps
	r.Eval(1)
	r.Count("steps", int64(cs.Steps))
	r.Count("oversize_attempts", int64(x.cs.Oversize))
	r.Count("writes_onto_expired_or_near_deadline", int64(x.cs.NearDL))
	if x.cs.NearDL > 0 || x.cs.Oversize > 0 {
		r.Distinct(fmt.Sprintf("%s/M%d/dk%v/cf%v/%x", cs.Kind, cs.MaxSize, cs.Doorkeeper, cs.CostFn, hashStr(kinds.String())))
	}
	r.Sample(4, map[string]any{"case": x.cs, "first_ops": firstN(x.trace, 14)})
}

func firstN(s []string, n int) []string {
	if len(s) > n {
		return s[:n]
	}
	return s
}

// c06ExpiryVsSet: a SetWithTTL on a key whose old value has expired but is not reclaimed yet,
// racing the timer wheel's expiry of that entry. The order is forced with a held shard read
// lock (a Range callback parked on a neighbour key of the same shard): the Set queues for
// the write lock first, the expiry path - which has already judged the entry expired and
// taken it out of policy and wheel - queues behind it. After the reader lets go the Set
// updates the entry in place and returns true; the new value must then be readable, must
// not be reported EXPIRED, and the quiescent invariants must hold.
func c06ExpiryVsSet(r *Run, variant int) {
	nl := &noteLog[int, int64]{}
	c, err := theine.NewBuilder[int, int64](100).RemovalListener(nl.listener()).Build()
	if err != nil {
		r.Broken("build: %v", err)
		return
	}
	defer c.Close()
	st := c.VerifStore()
	k := 10 + variant
	neighbour := -1
	for cand := 1000; cand < 100000; cand++ {
		if st.VerifShardOf(cand) == st.VerifShardOf(k) {
			neighbour = cand
			break
		}
	}
	v1, v2 := int64(7001), int64(7002)
	c.SetWithTTL(k, v1, 1, 5*time.Second)
	c.Set(neighbour, 1, 1)
	c.Wait()
	st.VerifShiftClock(6*time.Second, true) // v1 is past its deadline, not reclaimed yet
	script := []string{fmt.Sprintf("SetWithTTL(%d, %d, 5s); virtual time +6s (expired, not reclaimed)", k, v1)}
	gate := make(chan struct{})
	inRange := make(chan struct{})
	rangeDone := make(chan struct{})
	go func() {
		defer close(rangeDone)
		c.Range(func(key int, _ int64) bool {
			if key == neighbour {
				close(inRange)
				<-gate
				return false
			}
			return true
		})
	}()
	select {
	case <-inRange:
	case <-time.After(10 * time.Second):
		r.Inconclusive(1)
		close(gate)
		return
	}
	script = append(script, "Range callback parked on a neighbour key: shard read lock held")
	parkedIn := func(frame, state string) bool {
		for i := 0; i < 2000; i++ {
			for _, g := range parseGoroutines(allStacks()) {
				if g.has(frame) && strings.HasPrefix(g.State, state) {
					return true
				}
			}
			time.Sleep(500 * time.Microsecond)
		}
		return false
	}
	var setOK bool
	setDone := make(chan struct{})
	go func() { setOK = c.SetWithTTL(k, v2, 1, time.Hour); close(setDone) }()
	if !parkedIn(").setShard(", "sync.") {
		r.Inconclusive(1)
		close(gate)
		return
	}
	script = append(script, fmt.Sprintf("SetWithTTL(%d, %d, 1h) queued for the shard write lock", k, v2))
	tickDone := make(chan struct{})
	go func() { st.VerifTick(); close(tickDone) }()
	if !parkedIn(").removeEntry(", "sync.") {
		r.Inconclusive(1)
		close(gate)
		<-setDone
		return
	}
	script = append(script, "tick: expiry of the key judged it expired, left the policy, queued for the shard lock behind the Set")
	close(gate)
	<-rangeDone
	<-setDone
	<-tickDone
	c.Wait()
	got, ok := c.Get(k)
	script = append(script, fmt.Sprintf("reader released; SetWithTTL returned %v; Get(%d) -> (%d, %v)", setOK, k, got, ok))
	wit := map[string]any{"script": script, "variant": variant}
	if setOK && (!ok || got != v2) {
		r.Violate("set-true-not-readable/set-raced-expiry-of-the-old-value", fmt.Sprintf("SetWithTTL(%d, %d, 1h) returned true while the timer wheel was expiring the key's old value, but Get gives (%d,%v); script: %v", k, v2, got, ok, script), wit)
	}
	for _, n := range nl.snapshot() {
		if n.Val == v2 {
			r.Violate("lost-without-reason/new-value-notified-"+reasonName(n.Reason)+"/set-raced-expiry-of-the-old-value", fmt.Sprintf("the value %d stored with a TTL of 1h was removed and reported %s right away; script: %v", v2, reasonName(n.Reason), script), wit)
		}
	}
	for _, is := range checkQuiescent(st.VerifSnapshot(), c.EstimatedSize(), true) {
		r.Violate(is.Key+"/set-raced-expiry-of-the-old-value", is.What+fmt.Sprintf("; script: %v", script), wit)
	}
	r.Eval(1)
	r.Count("expiry_vs_set_scenarios", 1)
	r.Distinct(fmt.Sprintf("expiry-vs-set/%d", variant%4))
	if variant == 0 {
		r.Sample(10, map[string]any{"expiry_vs_set": script})
	}
}

// c06ReorderedCostDeltas: two Sets of one key with very different costs, each parked at hook H1
// after its map phase (the shard map already holds the result), their events released in the
// REVERSE order - what happens when the first caller is descheduled between its map update and
// its event send. The sum of all true costs never exceeds MaxSize at any moment of any real-time
// order of the two calls, so nothing may be evicted and every other key must stay readable.
func c06ReorderedCostDeltas(r *Run, variant int) { reorderedCostDeltas(r, variant, "C06") }

// reorderedCostDeltas also serves C16, which judges only the public size views after the script: Len, Range and
// EstimatedSize must agree with each other about what is resident and what it costs.
func reorderedCostDeltas(r *Run, variant int, prop string) {
	rng := r.Rng(int64(6600 + variant))
	M := int64([]int{100, 200, 1000}[variant%3])
	// two shapes: the key's cost goes up and down again (1 -> big -> 1: the reversed deltas take its weight below
	// zero), or down and up again (big -> 1 -> big: the reversed deltas take it to 2*big-1, above MaxSize, although
	// the true total never exceeds others + big)
	downUp := variant/3%2 == 1
	others := int(M)/4 + rng.Intn(int(M)/8) // resident unit-cost keys
	big := M/2 + rng.Int63n(M/4)
	if room := M - 2 - int64(others); big > room { // others + big stays below M (and big above M/2)
		big = room
	}
	nl := &noteLog[int, int64]{}
	c, err := theine.NewBuilder[int, int64](M).RemovalListener(nl.listener()).Build()
	if err != nil {
		r.Broken("build: %v", err)
		return
	}
	defer c.Close()
	st := c.VerifStore()
	for k := 1; k <= others; k++ {
		c.Set(k, int64(k), 1)
	}
	const key = 0
	c0, cA, cB := int64(1), big, int64(1)
	if downUp {
		c0, cA, cB = big, 1, big
	}
	c.Set(key, 5000, c0)
	c.Wait()
	script := []string{fmt.Sprintf("MaxSize %d: %d keys of cost 1 and key %d of cost %d resident (total %d)", M, others, key, c0, int64(others)+c0)}
	p := newParker(internal.VPBeforeEvent)
	defer p.close()
	ctlA, doneA := p.goParked("A", func() { c.Set(key, 5001, cA) })
	if _, parked, err := waitParkedOrDone(ctlA, doneA); err != nil || !parked {
		r.Inconclusive(1)
		return
	}
	script = append(script, fmt.Sprintf("A: Set(key, cost %d) parked after its map phase (delta %+d not sent yet)", cA, cA-c0))
	ctlB, doneB := p.goParked("B", func() { c.Set(key, 5002, cB) })
	if _, parked, err := waitParkedOrDone(ctlB, doneB); err != nil || !parked {
		r.Inconclusive(1)
		ctlA.release <- struct{}{}
		<-doneA
		return
	}
	script = append(script, fmt.Sprintf("B: Set(key, cost %d) parked after its map phase (delta %+d not sent yet); true total is %d again", cB, cB-cA, int64(others)+cB))
	ctlB.release <- struct{}{}
	<-doneB
	c.Wait()
	mid := st.VerifPolicyPeekUnlocked()
	script = append(script, fmt.Sprintf("B's event applied first: policy total %d, resident %d", mid["weighted_size"], c.Len()))
	ctlA.release <- struct{}{}
	<-doneA
	c.Wait()
	script = append(script, fmt.Sprintf("A's event applied: policy total %d, resident %d", st.VerifPolicyPeekUnlocked()["weighted_size"], c.Len()))
	wit := map[string]any{"script": script, "variant": variant, "maxsize": M, "peak_true_total": int64(others) + big}
	evicted := 0
	for _, n := range nl.snapshot() {
		if n.Reason == theine.EVICTED {
			evicted++
		}
	}
	missing := 0
	for k := 1; k <= others; k++ {
		if _, ok := c.Get(k); !ok {
			missing++
		}
	}
	if prop == "C16" {
		visits, sum := 0, int64(0)
		c.Range(func(k int, v int64) bool {
			visits++
			if k == key {
				sum += cB
			} else {
				sum++
			}
			return true
		})
		if l, est := c.Len(), c.EstimatedSize(); l != visits || int64(est) != sum {
			r.Violate("estimatedsize!=sum-of-costs/cost-deltas-applied-in-reverse-order", fmt.Sprintf("after two Sets of one key whose cost deltas reached the policy in reverse order, and Wait: Len() = %d, Range visited %d entries costing %d in total, EstimatedSize() = %d; script: %v", l, visits, sum, est, script), wit)
		}
		r.Eval(1)
		r.Count("reordered_cost_delta_scenarios", 1)
		r.Distinct(fmt.Sprintf("reordered-cost-deltas/M%d/down-up=%v", M, downUp))
		return
	}
	if v, ok := c.Get(key); !ok || v != 5002 {
		missing++
		script = append(script, fmt.Sprintf("Get(key) = (%d,%v), want the value of the last Set, 5002", v, ok))
	}
	vkey := "evicted-below-capacity/cost-deltas-applied-in-reverse-order"
	if downUp {
		vkey += "/cost-down-then-up"
		// the recorded finding: the key whose own two deltas were swapped is evicted at the moment its policy weight
		// stands above MaxSize, and nothing else is touched. Anything more (another key gone, several evictions)
		// is a different failure
		onlyKey := evicted == 1 && missing == 1
		for _, n := range nl.snapshot() {
			if n.Reason == theine.EVICTED && n.Key != key {
				onlyKey = false
			}
		}
		if _, ok := c.Get(key); ok {
			onlyKey = false
		}
		// the same reordering with a smaller cost: the key's own weight stays within MaxSize, but the policy's total
		// (others + cB + (cB - cA)) stands above it for a moment, and the eviction that answers takes bystanders - at
		// most as many (they cost 1 each) as the total stood above MaxSize
		excess := int64(others) + cB + (cB - cA) - M
		if onlyKey {
			vkey += "/only-the-rewritten-key-itself-evicted-while-its-policy-weight-stood-above-maxsize"
		} else if excess > 0 && int64(evicted) <= excess && int64(missing) <= excess {
			vkey += "/bystanders-evicted-while-the-policy-total-stood-above-maxsize/no-more-than-the-excess"
		}
	}
	if evicted > 0 || missing > 0 {
		r.Violate(vkey,
			fmt.Sprintf("%d entries were reported EVICTED and %d of the %d keys are gone although the total cost never exceeded %d of MaxSize %d; script: %v", evicted, missing, others+1, int64(others)+big, M, script), wit)
	}
	for _, is := range checkQuiescent(st.VerifSnapshot(), c.EstimatedSize(), true) {
		r.Violate(is.Key+"/cost-deltas-applied-in-reverse-order", is.What+fmt.Sprintf("; script: %v", script), wit)
	}
	r.Eval(1)
	r.Count("reordered_cost_delta_scenarios", 1)
	r.Distinct(fmt.Sprintf("reordered-cost-deltas/M%d/down-up=%v", M, downUp))
	if variant == 0 {
		r.Sample(10, map[string]any{"reordered_cost_deltas": script})
	}
}

// c06PooledEntries: with the entry pool on, an entry that is reclaimed goes back to the pool and is handed out again
// for another key. Keys stored with short TTLs expire and are reclaimed (virtual time + tick body); then new keys
// are stored WITHOUT a TTL: each must be readable at once, must still be readable an hour and a tick later, and
// must never be reported EXPIRED - whatever entry object it was given carries nothing over from its previous life.
func c06PooledEntries(r *Run, idx int) {
	rng := r.Rng(int64(66000 + idx))
	defer r.Case(fmt.Sprintf("pooled-entries round %d pool=true", idx))()
	nl := &noteLog[int, int64]{}
	a, err := newAnyCache([]string{"plain", "loading"}[idx%2], anyOpts{MaxSize: 5000, Pool: true, Listener: nl.listener()})
	if err != nil {
		r.Broken("build: %v", err)
		return
	}
	defer a.store().Close()
	st := a.store()
	n := 100 + rng.Intn(300)
	for k := 0; k < n; k++ {
		a.set(k, int64(k), int64(1+rng.Intn(3)), time.Duration(2+rng.Intn(6))*time.Second)
	}
	a.wait()
	st.VerifShiftClock(20*time.Second, true)
	st.VerifTick()
	a.wait()
	reclaimed := 0
	for _, x := range nl.snapshot() {
		if x.Reason == theine.EXPIRED {
			reclaimed++
		}
	}
	viol := func(key, what string) {
		r.Violate(key+"/entry-pool", fmt.Sprintf("pooled-entries round %d (%s cache, entry pool on): %d keys with TTLs of 2-7 s expired and were reclaimed (%d EXPIRED notifications); then %d new keys were stored without TTL: %s", idx, a.kind, n, reclaimed, n, what),
			map[string]any{"round": idx, "cache": a.kind})
	}
	unreadable, first := 0, ""
	for k := 0; k < n; k++ {
		nk := 1_000_000 + k
		v := int64(nk)<<8 | 7
		if !a.set(nk, v, 1, 0) {
			continue
		}
		if got, ok := st.VerifResident(nk), true; !got && ok {
			unreadable++
			if first == "" {
				first = fmt.Sprintf("key %d is not resident right after Set returned true", nk)
			}
			continue
		}
		if a.kind == "plain" {
			if gv, ok, _ := a.get(context.Background(), nk); !ok || gv != v {
				unreadable++
				if first == "" {
					first = fmt.Sprintf("Get(%d) = (%d, %v) right after Set(%d) returned true", nk, gv, ok, v)
				}
			}
		}
	}
	if unreadable > 0 {
		viol("set-true-not-readable/no-ttl", fmt.Sprintf("%d of them were not readable right after their Set returned true (first: %s)", unreadable, first))
	}
	a.wait()
	st.VerifShiftClock(time.Hour, true)
	st.VerifTick()
	a.wait()
	gone := 0
	for k := 0; k < n; k++ {
		if !st.VerifResident(1_000_000 + k) {
			gone++
		}
	}
	expired2 := 0
	for _, x := range nl.snapshot() {
		if x.Key >= 1_000_000 && x.Reason == theine.EXPIRED {
			expired2++
		}
	}
	if unreadable == 0 && (gone > 0 || expired2 > 0) {
		viol("lost-without-reason/no-ttl-entry-expired", fmt.Sprintf("an hour and a tick later %d of them are gone and %d were reported EXPIRED although none had a TTL and the cache is far from full", gone, expired2))
	}
	r.Eval(1)
	r.Count("pooled_entries_rounds", 1)
	r.Count("pooled_entries_reclaimed_before_reuse", int64(reclaimed))
	r.Distinct(fmt.Sprintf("pooled-entries/%s", a.kind))
}

// c06DoorkeeperAfterChurn: "Set returns false only when ... the doorkeeper sees the key for the first time". A
// doorkeeper cache (plain, or loading) takes in tens of thousands of keys that are offered once and never again - every shard's
// filter has aged several times by then. After that a key offered to the cache repeatedly must be admitted: the
// filter may age at one insertion (and forget the offer before), but not at every one, so of three back-to-back
// offers of one absent key at least one succeeds; once it has, the value is readable. Nothing else runs in between.
func c06DoorkeeperAfterChurn(r *Run, idx int) {
	rng := r.Rng(int64(6600 + idx))
	maxSize := []int64{100, 1000, 5000}[idx%3]
	kind := []string{"plain", "loading"}[idx/3%2]
	a, err := newAnyCache(kind, anyOpts{MaxSize: maxSize, Doorkeeper: true,
		Loader: func(ctx context.Context, k int) (theine.Loaded[int64], error) {
			return theine.Loaded[int64]{Value: int64(k), Cost: 1}, nil
		}})
	if err != nil {
		r.Broken("build: %v", err)
		return
	}
	defer a.closeAPI()
	// keys that are resident before the churn (offered until stored, then read a few times): an update of a
	// resident key is never a first sighting, whatever the filters have forgotten since
	var pinned []int
	for j := 0; j < 40; j++ {
		k := 7_000_000 + idx*1000 + j
		for try := 0; try < 3; try++ {
			if a.set(k, int64(k), 1, 0) {
				pinned = append(pinned, k)
				break
			}
		}
	}
	a.wait()
	for rep := 0; rep < 4; rep++ {
		for _, k := range pinned {
			_, _, _ = a.get(context.Background(), k)
		}
	}
	churn := 20000 + rng.Intn(30000)
	firstTimeAdmitted := 0
	for i := 0; i < churn; i++ {
		if a.set(1_000_000+i, int64(i), 1, 0) {
			firstTimeAdmitted++ // a false positive of the filter: allowed
		}
	}
	a.wait()
	updated := 0
	for _, k := range pinned {
		if !a.store().VerifResident(k) {
			continue
		}
		nv := int64(k) + 1
		if !a.set(k, nv, 1, 0) {
			r.Violate("set-false-for-a-resident-key/doorkeeper/after-one-off-churn/"+kind, fmt.Sprintf("round %d (%s, MaxSize %d, doorkeeper on): key %d was resident; after %d other keys had been offered once each, Set(%d, new value, cost 1) returned false", idx, kind, maxSize, k, churn, k),
				map[string]any{"round": idx, "cache": kind, "maxsize": maxSize, "one_off_keys": churn})
			break
		}
		if v, ok, _ := a.get(context.Background(), k); !ok || v != nv {
			r.Violate("set-true-not-readable/doorkeeper/resident-key/after-one-off-churn/"+kind, fmt.Sprintf("round %d (%s, MaxSize %d, doorkeeper on): update of resident key %d returned true, the Get right after returned (%d,%v), want %d", idx, kind, maxSize, k, v, ok, nv),
				map[string]any{"round": idx, "cache": kind, "maxsize": maxSize})
			break
		}
		updated++
	}
	r.Count("doorkeeper_resident_keys_updated_after_churn", int64(updated))
	refused := 0
	for j := 0; j < 300; j++ {
		k := 5_000_000 + idx*1000 + j
		admitted := -1
		for try := 0; try < 3; try++ {
			if a.set(k, int64(k)*3, 1, 0) {
				admitted = try
				break
			}
		}
		if admitted < 0 {
			refused++
			if refused == 1 {
				r.Violate("set-false-for-a-key-the-doorkeeper-has-seen/after-one-off-churn/"+kind, fmt.Sprintf("round %d (%s, MaxSize %d, doorkeeper on): after %d keys offered once each, key %d was offered three times in a row with cost 1 and refused every time", idx, kind, maxSize, churn, k),
					map[string]any{"round": idx, "cache": kind, "maxsize": maxSize, "one_off_keys": churn})
			}
			continue
		}
		if v, ok, _ := a.get(context.Background(), k); !ok || v != int64(k)*3 {
			r.Violate("set-true-not-readable/doorkeeper/after-one-off-churn/"+kind, fmt.Sprintf("round %d (%s, MaxSize %d, doorkeeper on): Set(%d) returned true on offer %d, the Get right after returned (%d,%v)", idx, kind, maxSize, k, admitted+1, v, ok),
				map[string]any{"round": idx, "cache": kind, "maxsize": maxSize})
			break
		}
	}
	r.Eval(1)
	r.Count("doorkeeper_churn_rounds", 1)
	r.Count("doorkeeper_first_time_keys_admitted_by_false_positive", int64(firstTimeAdmitted))
	r.Distinct(fmt.Sprintf("doorkeeper-after-churn/%s/%d", kind, maxSize))
}

func runC06(r *Run) {
	defer func() {
		for i := 0; i < r.Pick(4, 24); i++ {
			c06PooledEntries(r, r.Shard*24+i)
		}
		for i := 0; i < r.Pick(2, 8); i++ {
			c06ExpiryVsSet(r, r.Shard*8+i)
		}
		for i := 0; i < r.Pick(6, 24); i++ {
			c06ReorderedCostDeltas(r, r.Shard*24+i)
		}
		for i := 0; i < r.Pick(1, 6); i++ {
			c06DoorkeeperAfterChurn(r, r.Shard*6+i)
		}
		for i := 0; i < r.Pick(48, 480); i++ {
			if i%r.NShards == r.Shard {
				loadIntoCacheInUse(r, i, "C06")
			}
		}
	}()
	r.Rule("case = one sequential operation sequence (Set / SetWithTTL / Delete / loading Get / virtual-time step / tick / probe; costs 1..room and deliberately oversize; doorkeeper on/off; cost function on/off; plain and loading) checked step by step against a reference model whose occupancy never exceeds MaxSize. " +
		"Non-trivial = the sequence wrote to a key at or near an earlier deadline of that key, or attempted an oversize cost; distinct by configuration + hash of the op-kind sequence")
	r.Assume("sequential client, so events reach the policy in operation order; occupancy counts expired-but-unreclaimed keys until their EXPIRED notification",
		"a TTL-less Set over a value whose TTL is still running is unspecified by the property and not asserted either way")
	n := r.Pick(12000, 300000)
	parMap(n, 14, func(i int) { c06Sequence(r, i) })
}
