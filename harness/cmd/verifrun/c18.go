package main

import (
	"bytes"
	"context"
	"fmt"
	"runtime"
	"strconv"
	"strings"
	"sync"
	"sync/atomic"
	"time"

	theine "github.com/Yiling-J/theine-go"
)

// C18 — keys that compare equal address the same entry; different keys never
// alias; the key-to-shard mapping is stable.
//
// For every key type of a matrix, a cache is filled through one construction
// path (value = f(index)) and read back through *another* path that builds
// equal keys differently: copied through heap slots and arrays, rebuilt by
// arithmetic, strings with fresh backing arrays, after the stack has been
// dirtied, after GC cycles. Oracle: every equal key hits and returns the value
// stored under it, a key never returns another key's value, a key that was
// never stored misses, Len equals the number of distinct keys stored (two
// entries for one logical key = equal keys did not address the same entry),
// and the hash of a key (=> its shard) sampled at the start is unchanged
// after many operations and GC cycles. A StringKey function forcing every key
// to one hash (full collision) must not make keys alias.
// Two more arms: (a) a StringKey function that returns the EMPTY string for
// some keys, whose (equal) empty strings are built along different code paths
// - a literal, an empty tail of a heap string, the result of strings.Cut - so
// that nothing but the function's result may enter the hash; (b) keys whose
// hashes collide, requested CONCURRENTLY while absent from a loading cache and
// from the memory tier of a hybrid cache: each Get must come back with the
// value of its own key (the de-duplication of concurrent loads must tell
// colliding keys apart just as the shard map does).
// The driver runs this on both toolchains present (go1.23.5: raw-memory xxh3
// hasher; go1.26.8: maphash) and under -race (checkptr).

func init() { registry["C18"] = runC18 }

type c18Case struct {
	Type      string `json:"key_type"`
	Toolchain string `json:"toolchain"`
	Padding   bool   `json:"type_has_padding"`
	StringKey string `json:"string_key_func,omitempty"`
	N         int    `json:"keys"`
	SmallDom  bool   `json:"key_domain_exhausted,omitempty"`
	Persist   bool   `json:"also_after_a_save_load_round_trip,omitempty"`
}

// goAtLeast reports whether the running toolchain is go1.minor or newer.
func goAtLeast(minor int) bool {
	v := strings.TrimPrefix(runtime.Version(), "go1.")
	if i := strings.IndexAny(v, ".-+ "); i >= 0 {
		v = v[:i]
	}
	n, err := strconv.Atoi(v)
	return err == nil && n >= minor
}

//go:noinline
func dirtyStack(seed byte) byte {
	var buf [2048]byte
	for i := range buf {
		buf[i] = seed + byte(i)
	}
	return buf[int(seed)%len(buf)]
}

// c18Run exercises one key type. mk must be a pure function of i that builds
// the key along path p (p = 0: store path, 1..: read paths).
func c18Run[K comparable](r *Run, cs c18Case, mk func(i, path int) K, strKey func(K) string, byteWise bool) {
	cs.Toolchain = runtime.Version()
	b := theine.NewBuilder[K, int](int64(cs.N * 4))
	if strKey != nil {
		b = b.StringKey(strKey)
	}
	c, err := b.Build()
	if err != nil {
		r.Broken("build: %v", err)
		return
	}
	defer c.Close()
	st := c.VerifStore()
	pre124 := !goAtLeast(24)
	fail := func(key, what string, extra map[string]any) {
		k := key + "/" + cs.Type
		if pre124 && cs.Padding && strKey == nil {
			// the open finding, identified by the observed facts: raw-memory hasher (toolchain < 1.24), key type
			// with padding bytes, no StringKey function. Every symptom of it (miss, second entry, unstable hash)
			// shares this key; the symptom is in the text.
			k = "equal-keys-not-same-entry/hasher=xxh3-raw/keytype-has-padding"
			what = key + ": " + what
		}
		extra["case"] = cs
		r.Violate(k, fmt.Sprintf("%s keys on %s: %s", cs.Type, cs.Toolchain, what), extra)
	}
	hashAtStart := make([]uint64, 0, 64)
	for i := 0; i < 64 && i < cs.N; i++ {
		hashAtStart = append(hashAtStart, st.VerifHash(mk(i, 0)))
	}
	for i := 0; i < cs.N; i++ {
		dirtyStack(byte(i))
		c.Set(mk(i, 0), i*31+7, 1)
	}
	c.Wait()
	if l := c.Len(); l != cs.N {
		fail("len-differs-from-distinct-keys", fmt.Sprintf("%d distinct keys were stored once each but Len() = %d", cs.N, l), map[string]any{})
	}
	// overwrite through another path: must update, not create a second entry
	for i := 0; i < cs.N; i += 3 {
		dirtyStack(byte(i * 7))
		c.Set(mk(i, 1), i*31+7, 1)
	}
	c.Wait()
	if l := c.Len(); l != cs.N {
		fail("equal-key-created-second-entry", fmt.Sprintf("re-Setting every third key through a differently built equal key changed Len() from %d to %d", cs.N, l), map[string]any{})
	}
	miss, wrong := 0, 0
	var firstMiss, firstWrong string
	for path := 1; path <= 3; path++ {
		for i := 0; i < cs.N; i++ {
			if i%257 == 0 {
				runtime.GC()
			}
			dirtyStack(byte(i + path))
			v, ok := c.Get(mk(i, path))
			if !ok {
				miss++
				if firstMiss == "" {
					firstMiss = fmt.Sprintf("key #%d built along path %d (%v)", i, path, mk(i, path))
				}
			} else if v != i*31+7 {
				wrong++
				if firstWrong == "" {
					firstWrong = fmt.Sprintf("key #%d (%v) returned %d, stored %d", i, mk(i, path), v, i*31+7)
				}
			}
		}
	}
	if miss > 0 {
		fail("equal-key-missed", fmt.Sprintf("%d of %d lookups through an equal key built along another code path missed (first: %s)", miss, 3*cs.N, firstMiss), map[string]any{"missed": miss, "lookups": 3 * cs.N})
	}
	if wrong > 0 {
		fail("key-returned-another-keys-value", fmt.Sprintf("%d lookups returned a value stored under a different key (first: %s)", wrong, firstWrong), map[string]any{})
	}
	// keys never stored must miss
	phantom := 0
	for i := cs.N; !cs.SmallDom && i < cs.N+cs.N/4+8; i++ {
		if _, ok := c.Get(mk(i, 2)); ok {
			phantom++
		}
	}
	if phantom > 0 {
		fail("never-stored-key-hit", fmt.Sprintf("%d keys that were never stored returned a value", phantom), map[string]any{})
	}
	// delete through yet another path
	for i := 0; i < cs.N; i += 5 {
		c.Delete(mk(i, 3))
	}
	c.Wait()
	still := 0
	for i := 0; i < cs.N; i += 5 {
		if _, ok := c.Get(mk(i, 0)); ok {
			still++
		}
	}
	if still > 0 {
		fail("delete-through-equal-key-ineffective", fmt.Sprintf("%d keys deleted through an equal key built along another path are still readable", still), map[string]any{})
	}
	// the same after a SaveCache / LoadCache round trip (entries that were written and never read included): the
	// restored entries must be found through equal keys, a Set through an equal key must not create a second entry
	if cs.Persist {
		var buf bytes.Buffer
		b2 := theine.NewBuilder[K, int](int64(cs.N * 4))
		if strKey != nil {
			b2 = b2.StringKey(strKey)
		}
		c2, err2 := b2.Build()
		if err := c.SaveCache(1, &buf); err != nil || err2 != nil {
			r.Count("round_trips_skipped", 1)
		} else if err := c2.LoadCache(1, &buf); err != nil {
			fail("loadcache-failed", fmt.Sprintf("LoadCache of an undamaged stream returned %v", err), map[string]any{})
		} else {
			want := c.Len()
			miss2 := 0
			var firstMiss2 string
			for i := 0; i < cs.N; i++ {
				if i%5 == 0 {
					continue // deleted above
				}
				dirtyStack(byte(i))
				if v, ok := c2.Get(mk(i, 1+i%3)); !ok || v != i*31+7 {
					miss2++
					if firstMiss2 == "" {
						firstMiss2 = fmt.Sprintf("key #%d (%v): Get = (%d, %v), stored %d", i, mk(i, 1), v, ok, i*31+7)
					}
				}
			}
			if miss2 > 0 {
				fail("equal-key-missed/after-save-load-round-trip", fmt.Sprintf("%d of the restored keys are not found (or found with another value) through an equal key although Len() = %d of %d saved (first: %s)", miss2, c2.Len(), want, firstMiss2), map[string]any{"missed": miss2})
			}
			for i := 1; i < cs.N; i += 7 {
				if i%5 != 0 {
					c2.Set(mk(i, 2), i*31+7, 1)
				}
			}
			c2.Wait()
			if l := c2.Len(); l != want {
				fail("equal-key-created-second-entry/after-save-load-round-trip", fmt.Sprintf("re-Setting restored keys through equal keys changed Len() from %d to %d", want, l), map[string]any{})
			}
			r.Count("round_trips_judged", 1)
		}
		if c2 != nil {
			c2.Close()
		}
	}
	// stable hash (=> shard) for the life of the cache
	runtime.GC()
	changed := 0
	for i, h := range hashAtStart {
		if st.VerifHash(mk(i, 2)) != h || st.VerifHash(mk(i, 0)) != h {
			changed++
		}
	}
	if changed > 0 {
		fail("key-hash-not-stable", fmt.Sprintf("the hash (and so the shard) of %d of %d sampled keys differs between the start and the end of the cache's life / between equal keys", changed, len(hashAtStart)), map[string]any{})
	}
	r.Eval(1)
	r.Count("keys_stored", int64(cs.N))
	r.Count("equal_key_lookups", int64(3*cs.N))
	sk := "none"
	if strKey != nil {
		sk = cs.StringKey
	}
	r.Distinct(fmt.Sprintf("%s/%s/strkey=%s", cs.Type, cs.Toolchain, sk))
	r.Sample(10, map[string]any{"case": cs, "missed": miss, "wrong": wrong})
}

// ---- key types

type kPair struct{ A, B uint32 }
type kPadded struct {
	A uint8
	B uint64
	C uint16
}
type kNested struct {
	P kPair
	Q [3]int16
	R bool
	S uint8
}
type kArr [4]uint16
type kWithStr struct {
	ID   int
	Name string
}
type kIface struct{ V interface{} }
type kNamedStr string
type kStrArr [2]string
type kStrArrIn struct {
	N int
	P [3]string
}

// strPath builds the same string along four different construction paths (different backing arrays)
func strPath(prefix string, i, p int) string {
	switch p {
	case 0:
		return prefix + strconv.Itoa(i)
	case 1:
		return fmt.Sprintf("%s%d", prefix, i)
	case 2:
		b := []byte(prefix + strconv.Itoa(i))
		return string(b)
	}
	var sb strings.Builder
	sb.WriteString(prefix)
	sb.WriteString(strconv.Itoa(i))
	return strings.Clone(sb.String())
}

type kFloat struct{ F float64 }
type kPtrBox struct{ P *int }
type kThreeBytes struct{ A, B, C uint8 }

// heap / array laundering so that the key is not built in place from constants
var c18Sink []any

func launder[T any](v T) T {
	p := new(T)
	*p = v
	arr := [3]T{v, *p, v}
	c18Sink = append(c18Sink[:0], p)
	return arr[1]
}

func runC18(r *Run) {
	r.Rule("case = one key type on one toolchain: N keys stored along one construction path and looked up / overwritten / deleted along three others (heap and array copies, arithmetic, fresh string backing arrays, dirtied stack, GC cycles), plus never-stored keys and a start/end hash comparison. Non-trivial = every case; distinct by (key type, toolchain, StringKey function)")
	r.Assume("the driver runs the same cases under both toolchains of the image and under the race detector (checkptr)",
		"before Go 1.24 the property is claimed only for byte-wise-equal key types and for any type with a StringKey function; string-, float- and interface-containing struct keys are exercised without StringKey only on >= 1.24")
	n := r.Pick(2000, 40000)
	modern := goAtLeast(24)
	if v := mustAtoi(r.Args["n"], 0); v > 0 {
		n = v
	}
	cs := func(t string, pad bool) c18Case {
		return c18Case{Type: t, Padding: pad, N: n, Persist: !strings.Contains(t, "*") && !strings.Contains(t, "interface")} // (a pointer does not survive a round trip as the same key)
	}
	// integers of every width, zero and extreme values included (i=0 => zero value)
	c18Run[int](r, cs("int", false), func(i, p int) int { return launder(i*i + i + (p - p)) }, nil, true)
	c18Run[int8](r, c18Case{Type: "int8", N: 200, SmallDom: true}, func(i, p int) int8 { return launder(int8(i - 100 + p - p)) }, nil, true)
	c18Run[uint16](r, cs("uint16", false), func(i, p int) uint16 { return launder(uint16(i)) }, nil, true)
	c18Run[int32](r, cs("int32", false), func(i, p int) int32 { return launder(int32(-i) * 3) }, nil, true)
	c18Run[uint64](r, cs("uint64", false), func(i, p int) uint64 {
		if i == 1 {
			return ^uint64(0)
		}
		return launder(uint64(i) * 0x9E3779B97F4A7C15)
	}, nil, true)
	c18Run[uintptr](r, cs("uintptr", false), func(i, p int) uintptr { return launder(uintptr(i) << 3) }, nil, true)
	c18Run[bool](r, c18Case{Type: "bool", N: 2, SmallDom: true}, func(i, p int) bool { return launder(i%2 == 1) }, nil, true)
	// pointers: identity keys
	objs := make([]*int, n+n/4+16)
	for i := range objs {
		objs[i] = new(int)
	}
	c18Run[*int](r, cs("*int", false), func(i, p int) *int { return launder(objs[i]) }, nil, true)
	// the object a pointer key points to changes between the operations (the key is the address, not the contents),
	// also for pointer-shaped structs and arrays
	objs2 := make([]*int, n+n/4+16)
	for i := range objs2 {
		objs2[i] = new(int)
	}
	c18Run[*int](r, cs("*int (pointee rewritten between operations)", false), func(i, p int) *int { *objs2[i] = p*1000003 + i; return launder(objs2[i]) }, nil, true)
	c18Run[kPtrBox](r, cs("struct{*int} (pointee rewritten between operations)", false), func(i, p int) kPtrBox { *objs2[i] = p*7777 - i; return launder(kPtrBox{objs2[i]}) }, nil, true)
	c18Run[[1]*int](r, cs("[1]*int (pointee rewritten between operations)", false), func(i, p int) [1]*int { *objs2[i] = p ^ i; return launder([1]*int{objs2[i]}) }, nil, true)
	// sizes that are not a power of two and below a machine word
	c18Run[[3]byte](r, cs("[3]byte", false), func(i, p int) [3]byte { return launder([3]byte{byte(i), byte(i >> 8), byte(i >> 16)}) }, nil, true)
	c18Run[[5]byte](r, cs("[5]byte", false), func(i, p int) [5]byte { return launder([5]byte{byte(i), byte(i >> 8), byte(i >> 16), 0xA5, byte(i)}) }, nil, true)
	c18Run[[7]byte](r, cs("[7]byte", false), func(i, p int) [7]byte { return launder([7]byte{1, byte(i), 2, byte(i >> 8), 3, byte(i >> 16), 4}) }, nil, true)
	c18Run[[3]uint16](r, cs("[3]uint16", false), func(i, p int) [3]uint16 { return launder([3]uint16{uint16(i), uint16(i >> 16), 7}) }, nil, true)
	c18Run[kThreeBytes](r, cs("struct{uint8;uint8;uint8}", false), func(i, p int) kThreeBytes { return launder(kThreeBytes{uint8(i), uint8(i >> 8), uint8(i >> 16)}) }, nil, true)
	c18Run[[11]byte](r, cs("[11]byte", false), func(i, p int) [11]byte {
		return launder([11]byte{byte(i), byte(i >> 8), byte(i >> 16), 9, 9, 9, 9, 9, 9, 9, byte(i)})
	}, nil, true)
	// strings with different backing arrays per path
	c18Run[string](r, cs("string", false), func(i, p int) string {
		switch p {
		case 0:
			return "key-" + strconv.Itoa(i)
		case 1:
			return fmt.Sprintf("key-%d", i)
		case 2:
			b := []byte("key-" + strconv.Itoa(i))
			return string(b)
		}
		var sb strings.Builder
		sb.WriteString("key-")
		sb.WriteString(strconv.Itoa(i))
		if i == 0 {
			return sb.String()
		}
		return strings.Clone(sb.String())
	}, nil, true)
	c18Run[string](r, c18Case{Type: "string (empty and long)", N: 300}, func(i, p int) string {
		if i == 0 {
			return ""
		}
		return strings.Repeat(string(rune('a'+i%26)), i*(1+p-p)) + strconv.Itoa(i)
	}, nil, true)
	// a named string type is a string: equality is by contents, whatever the backing array
	c18Run[kNamedStr](r, cs("named string type", false), func(i, p int) kNamedStr { return kNamedStr(strPath("id-", i, p)) }, nil, true)
	// strings inside arrays (directly, and inside a struct) with a StringKey function
	c18Run[kStrArr](r, c18Case{Type: "[2]string + StringKey", StringKey: "a|b", N: n / 4, Persist: true}, func(i, p int) kStrArr {
		return kStrArr{strPath("a", i, p), strPath("b", i*7, (p+1)%4)}
	}, func(k kStrArr) string { return k[0] + "|" + k[1] }, false)
	c18Run[kStrArrIn](r, c18Case{Type: "struct{int;[3]string} + StringKey", StringKey: "n|p0|p1|p2", N: n / 4, Persist: true}, func(i, p int) kStrArrIn {
		return kStrArrIn{N: i, P: [3]string{strPath("x", i, p), "", strPath("z", i%5, (p+2)%4)}}
	}, func(k kStrArrIn) string { return strconv.Itoa(k.N) + "|" + strings.Join(k.P[:], "|") }, false)
	// arrays and structs of scalars
	c18Run[kArr](r, cs("[4]uint16", false), func(i, p int) kArr { return launder(kArr{uint16(i), uint16(i >> 16), 7, uint16(i * 3)}) }, nil, true)
	c18Run[kPair](r, cs("struct{uint32;uint32}", false), func(i, p int) kPair { return launder(kPair{uint32(i), uint32(i) ^ 0xdeadbeef}) }, nil, true)
	c18Run[kPadded](r, cs("struct{uint8;uint64;uint16} (padding)", true), func(i, p int) kPadded {
		dirtyStack(byte(i*13 + p))
		return launder(kPadded{uint8(i), uint64(i) * 1000003, uint16(i >> 3)})
	}, nil, true)
	c18Run[kNested](r, cs("nested struct with arrays and bool (padding)", true), func(i, p int) kNested {
		dirtyStack(byte(i + 3*p))
		return launder(kNested{kPair{uint32(i), 1}, [3]int16{int16(i), -1, int16(i >> 8)}, i%2 == 0, uint8(i)})
	}, nil, true)
	// any type with a StringKey function (claimed on every toolchain)
	c18Run[kPadded](r, c18Case{Type: "struct with padding + StringKey", Padding: true, StringKey: "fmt of the fields", N: n / 4, Persist: true}, func(i, p int) kPadded {
		dirtyStack(byte(i*13 + p))
		return launder(kPadded{uint8(i), uint64(i) * 1000003, uint16(i >> 3)})
	}, func(k kPadded) string { return fmt.Sprintf("%d/%d/%d", k.A, k.B, k.C) }, false)
	c18Run[kWithStr](r, c18Case{Type: "struct{int;string} + StringKey", StringKey: "id:name", N: n / 4, Persist: true}, func(i, p int) kWithStr {
		return kWithStr{ID: i, Name: string([]byte("name-" + strconv.Itoa(i)))}
	}, func(k kWithStr) string { return strconv.Itoa(k.ID) + ":" + k.Name }, false)
	// forced full collision: every key hashes alike, the shard map must still tell them apart
	c18Run[int](r, c18Case{Type: "int + constant StringKey (full hash collision)", StringKey: "constant", N: n / 8}, func(i, p int) int { return launder(i) }, func(int) string { return "same" }, false)
	c18Run[kWithStr](r, c18Case{Type: "struct{int;string} + StringKey on ID only (partial collision)", StringKey: "id%16", N: n / 8}, func(i, p int) kWithStr {
		return kWithStr{ID: i, Name: string([]byte("n" + strconv.Itoa(i)))}
	}, func(k kWithStr) string { return strconv.Itoa(k.ID % 16) }, false)
	// StringKey returning "" for every other key: equal keys carry differently built empty strings
	heapStr := string([]byte("id=" + strconv.Itoa(n)))
	c18Run[kWithStr](r, c18Case{Type: "struct{int;string} + StringKey = the string field, empty for half of the keys", StringKey: "name (may be empty)", N: n / 8}, func(i, p int) kWithStr {
		if i%2 == 1 {
			return kWithStr{ID: i, Name: string([]byte("n" + strconv.Itoa(i/16)))}
		}
		switch p {
		case 0:
			return kWithStr{ID: i, Name: ""}
		case 1:
			return kWithStr{ID: i, Name: heapStr[len(heapStr):]}
		case 2:
			_, after, _ := strings.Cut(string([]byte("id=" + strconv.Itoa(i)))[:3], "=")
			return kWithStr{ID: i, Name: after}
		}
		return kWithStr{ID: i, Name: strings.TrimSpace(string([]byte("  ")))}
	}, func(k kWithStr) string { return k.Name }, false)
	// different keys must never observe each other's values while loads of neighbour keys start, are joined and
	// finish all the time (c01.go: round-synchronised and free-running storm on the keys of one shard)
	c01Storm(r, 1000)
	c18Concurrent(r, "loading", n/8)
	c18Concurrent(r, "hybrid", n/8)
	c18Concurrent(r, "hybrid-loading", n/8)
	c18Concurrent(r, "loading (BuildWithLoader)", n/16)
	c18Concurrent(r, "hybrid-loading (Loading.Hybrid)", n/16)
	if modern {
		// >= Go 1.24: maphash.Comparable — strings inside structs, floats (+0 == -0), interfaces
		c18Run[kWithStr](r, cs("struct{int;string} (no StringKey, >=1.24)", false), func(i, p int) kWithStr {
			return kWithStr{ID: i, Name: string([]byte("name-" + strconv.Itoa(i)))}
		}, nil, false)
		c18Run[kFloat](r, cs("struct{float64} incl. +0/-0 (>=1.24)", false), func(i, p int) kFloat {
			if i == 0 {
				if p%2 == 1 {
					z := 0.0
					return kFloat{-z}
				}
				return kFloat{0}
			}
			return kFloat{float64(i) / 7}
		}, nil, false)
		c18Run[kIface](r, cs("struct{interface{}} (>=1.24)", false), func(i, p int) kIface {
			if i%2 == 0 {
				return kIface{i}
			}
			return kIface{string([]byte("s" + strconv.Itoa(i)))}
		}, nil, false)
	}
}

// c18Concurrent: keys whose hashes collide (StringKey = ID mod 4) are requested
// at the same moment, G at a time, while absent from memory: from a loading
// cache (the loader computes f(key)) and from a hybrid cache whose secondary
// store already holds f(key) for each. Every Get must return f of its own key.
func c18Concurrent(r *Run, kind string, rounds int) {
	const G = 8
	f := func(k kWithStr) int64 { return int64(k.ID)*1000003 + int64(len(k.Name)) }
	strKey := func(k kWithStr) string { return strconv.Itoa(k.ID % 4) }
	mk := func(i int) kWithStr { return kWithStr{ID: i, Name: string([]byte("c" + strconv.Itoa(i)))} }
	cs := c18Case{Type: "struct{int;string} + StringKey id%4, colliding keys requested concurrently (" + kind + ")", StringKey: "id%4", N: rounds * G, Toolchain: runtime.Version()}
	var loads atomic.Int64
	b := theine.NewBuilder[kWithStr, int64](int64(rounds * G * 2)).StringKey(strKey)
	loader := func(ctx context.Context, k kWithStr) (theine.Loaded[int64], error) {
		loads.Add(1)
		time.Sleep(300 * time.Microsecond) // a load takes a moment, so that the other Gets of the round arrive while it is in flight
		return theine.Loaded[int64]{Value: f(k), Cost: 1}, nil
	}
	var get func(k kWithStr) (int64, bool)
	var closer func()
	sec := newMonSecondary[kWithStr, int64](false)
	sec.slow.Store(true)
	switch kind {
	case "loading", "loading (BuildWithLoader)":
		var c *theine.LoadingCache[kWithStr, int64]
		var err error
		if kind == "loading" {
			c, err = b.Loading(loader).Build()
		} else {
			c, err = b.BuildWithLoader(loader)
		}
		if err != nil {
			r.Broken("build: %v", err)
			return
		}
		get = func(k kWithStr) (int64, bool) { v, err := c.Get(context.Background(), k); return v, err == nil }
		closer = c.Close
	case "hybrid":
		c, err := b.Hybrid(sec).Build()
		if err != nil {
			r.Broken("build: %v", err)
			return
		}
		get = func(k kWithStr) (int64, bool) { v, ok, err := c.Get(k); return v, ok && err == nil }
		closer = c.Close
	default:
		var c *theine.HybridLoadingCache[kWithStr, int64]
		var err error
		if kind == "hybrid-loading" {
			c, err = b.Hybrid(sec).Loading(loader).Build()
		} else {
			c, err = b.Loading(loader).Hybrid(sec).Build()
		}
		if err != nil {
			r.Broken("build: %v", err)
			return
		}
		get = func(k kWithStr) (int64, bool) { v, err := c.Get(context.Background(), k); return v, err == nil }
		closer = c.Close
	}
	defer closer()
	if !strings.HasPrefix(kind, "loading") {
		for i := 0; i < rounds*G; i++ {
			if kind == "hybrid" || i%2 == 0 { // hybrid-loading: half from the secondary store, half from the loader
				_ = sec.Set(mk(i), f(mk(i)), 1, 0)
			}
		}
	}
	var wrong, missed atomic.Int64
	var first atomic.Value
	for rd := 0; rd < rounds; rd++ {
		var wg sync.WaitGroup
		start := make(chan struct{})
		for g := 0; g < G; g++ {
			wg.Add(1)
			go func(i int) {
				defer wg.Done()
				k := mk(i)
				<-start
				v, ok := get(k)
				switch {
				case !ok:
					missed.Add(1)
				case v != f(k):
					wrong.Add(1)
					first.CompareAndSwap(nil, fmt.Sprintf("Get(%v) returned %d = the value of key ID %d; its own value is %d", k, v, v/1000003, f(k)))
				}
			}(rd*G + g)
		}
		close(start)
		wg.Wait()
	}
	if w := wrong.Load(); w > 0 {
		r.Violate("key-returned-another-keys-value/concurrent-misses-of-colliding-keys/"+kind, fmt.Sprintf("%s on %s: %d of %d concurrent Gets of absent keys with colliding hashes returned another key's value (first: %v)", cs.Type, cs.Toolchain, w, rounds*G, first.Load()),
			map[string]any{"case": cs, "wrong": w, "loader_runs": loads.Load()})
	}
	// every key is cached in memory now (MaxSize is twice the number of keys): a second Get through an equal key
	// built afresh must find that entry - no loader run, no trip to the secondary store
	l0, g0 := loads.Load(), sec.gets.Load()
	again := 0
	for i := 0; i < rounds*G; i++ {
		dirtyStack(byte(i))
		if v, ok := get(kWithStr{ID: i, Name: strings.Clone("c" + strconv.Itoa(i))}); ok && v == f(mk(i)) {
			again++
		}
	}
	if dl, dg := loads.Load()-l0, sec.gets.Load()-g0; dl > 0 || dg > 0 {
		r.Violate("equal-key-missed/second-get-through-an-equal-key/"+kind, fmt.Sprintf("%s on %s: %d keys were loaded / promoted into a cache large enough to hold them all, yet a second Get of each through an equal key built afresh ran the loader %d times and asked the secondary store %d times (want 0 and 0)", cs.Type, cs.Toolchain, rounds*G, dl, dg),
			map[string]any{"case": cs, "loader_runs": dl, "secondary_gets": dg})
	}
	r.Count("second_gets_through_equal_keys", int64(again))
	// a miss is not this property's business (nothing aliased); it is counted for the evidence
	r.Count("concurrent_colliding_gets_missed", missed.Load())
	r.Eval(1)
	r.Count("concurrent_colliding_gets", int64(rounds*G))
	r.Distinct(fmt.Sprintf("%s/%s/strkey=%s", cs.Type, cs.Toolchain, cs.StringKey))
	r.Sample(10, map[string]any{"case": cs, "wrong": wrong.Load(), "missed": missed.Load(), "loader_runs": loads.Load()})
}
