package main

import (
	"fmt"
	"io"
	"math/rand"
	"runtime"
	"sort"
	"strings"
	"sync"
	"sync/atomic"
	"time"

	theine "github.com/Yiling-J/theine-go"
	"github.com/Yiling-J/theine-go/internal"
)

// C08 — the lossy read buffer never invents, never duplicates, never wedges.
//
// (a) Cooperative scheduler. The real Buffer is driven by 2–4 "threads"
//     (goroutines of which exactly one runs at any time); every hook point in
//     Buffer.Add / Buffer.Free (before the tail CAS, before the slot publish,
//     before the token CAS, before every slot of the drain loop, before the
//     head store, before the token is handed back) is a yield point, so the
//     scheduler chooses the interleaving at the granularity of single atomic
//     operations. Schedules come from a PCT-style priority scheduler, a
//     uniform random walk, and a preemption-bounded depth-first enumeration
//     (all schedules with <= k preemptions of small scripts placed around
//     the fill point, including "16 more adds arrive while the previous batch
//     is still held").
//     Oracle per schedule: every delivered id was added, is delivered at most
//     once and is non-zero; a batch does not change while its token is held;
//     at quiescence the token is available and 33 further sequential adds
//     produce at least one batch (a stripe that is merely full is fine as long
//     as a later reader drains it).
// (b) Store level. 2–64 readers hammer Get on resident keys while maintenance
//     is stalled (policy lock held / SaveCache into a blocked writer / removal
//     listener blocked), the stall is released, readers joined: during 128 further
//     hits per stripe every stripe's head must advance, and 4096 further hits of one resident key must raise its
//     frequency estimate.

func init() { registry["C08"] = runC08 }

type bufT = internal.Buffer[int, int]

// ---------------------------------------------------------------- cooperative threads

const (
	evOpStart  = 100 // pseudo hook ids for op boundaries
	evHolding  = 101
	evFinished = -1
)

type coThread struct {
	id       int
	resume   chan struct{}
	yielded  chan int
	inAdd    bool
	adds     int // script: number of Adds
	lateFree bool
}

type coSched struct {
	cur     atomic.Pointer[coThread]
	threads []*coThread
}

func (s *coSched) hook(id int) {
	t := s.cur.Load()
	if t == nil {
		return
	}
	if (id < internal.VPBufBeforeTailCAS || id > internal.VPBufBeforeFree) && id != internal.VPBufBetweenLoads {
		return
	}
	t.yielded <- id
	<-t.resume
}

func (t *coThread) yield(ev int) {
	t.yielded <- ev
	<-t.resume
}

type c08Case struct {
	Prefill int    `json:"prefill"`
	Adds    []int  `json:"adds_per_thread"`
	Mode    string `json:"mode"`
	Bound   int    `json:"preemption_bound,omitempty"`
}

type c08Step struct {
	T  int `json:"t"`
	Ev int `json:"ev"`
}

type c08Outcome struct {
	steps     []c08Step
	overlap   bool // >=2 threads were inside Add at once
	issues    []invIssue
	delivered int
	added     int
	batches   int
	tokenFail bool // a filler could not take the token
}

func evName(ev int) string {
	switch ev {
	case evOpStart:
		return "op"
	case evHolding:
		return "hold"
	case evFinished:
		return "end"
	case internal.VPBufBeforeTailCAS:
		return "tailCAS"
	case internal.VPBufBeforePublish:
		return "publish"
	case internal.VPBufBeforeTokenCAS:
		return "tokenCAS"
	case internal.VPBufDrainSlot:
		return "drainSlot"
	case internal.VPBufBeforeHeadStore:
		return "headStore"
	case internal.VPBufBeforeFree:
		return "free"
	case internal.VPBufBetweenLoads:
		return "loads"
	}
	return fmt.Sprint(ev)
}

func stepsString(st []c08Step) string {
	var b strings.Builder
	for i, s := range st {
		if i > 0 {
			b.WriteByte(' ')
		}
		fmt.Fprintf(&b, "%d:%s", s.T, evName(s.Ev))
	}
	return b.String()
}

// runSchedule executes one schedule of case c on a fresh buffer. choose picks
// the next thread among the enabled ones (cur = running thread index or -1 if
// it finished).
func c08RunSchedule(c c08Case, choose func(step int, cur int, enabled []int) int) c08Outcome {
	var out c08Outcome
	b := internal.NewBuffer[int, int]()
	var nextID uint64
	added := map[uint64]bool{}
	delivered := map[uint64]int{}
	addIssue := func(k, f string, a ...any) { out.issues = append(out.issues, invIssue{k, fmt.Sprintf(f, a...)}) }
	consume := func(pb *internal.PolicyBuffers[int, int]) []uint64 {
		ids := make([]uint64, 0, len(pb.Returned))
		for _, it := range pb.Returned {
			ids = append(ids, internal.VerifItemID(it))
		}
		return ids
	}
	account := func(ids []uint64) {
		out.batches++
		for _, id := range ids {
			if id == 0 {
				addIssue("delivered-zero-item", "a delivered batch contains a zero item (a slot handed out that no reader published)")
				continue
			}
			if !added[id] {
				addIssue("delivered-never-added", "delivered id %d was never added", id)
			}
			delivered[id]++
			if delivered[id] == 2 {
				addIssue("delivered-twice", "id %d was delivered twice", id)
			}
		}
	}
	// sequential prefill (no scheduler involved)
	for i := 0; i < c.Prefill; i++ {
		nextID++
		added[nextID] = true
		if pb := b.Add(internal.VerifReadItem[int, int](nextID)); pb != nil {
			account(consume(pb))
			b.Free()
		}
	}
	s := &coSched{}
	for i, n := range c.Adds {
		s.threads = append(s.threads, &coThread{id: i, resume: make(chan struct{}), yielded: make(chan int), adds: n})
	}
	var mu sync.Mutex // protects added/nextID between threads (only one runs at a time; mutex keeps -race quiet)
	for _, t := range s.threads {
		t := t
		go func() {
			<-t.resume
			for k := 0; k < t.adds; k++ {
				mu.Lock()
				nextID++
				id := nextID
				added[id] = true
				mu.Unlock()
				t.inAdd = true
				t.yield(evOpStart)
				pb := b.Add(internal.VerifReadItem[int, int](id))
				t.inAdd = false
				if pb != nil {
					ids := consume(pb)
					t.yield(evHolding) // the batch is being applied (policy lock wait): token held
					again := consume(pb)
					if fmt.Sprint(ids) != fmt.Sprint(again) {
						mu.Lock()
						addIssue("batch-changed-while-held", "batch %v changed to %v while its token was held", ids, again)
						mu.Unlock()
					}
					mu.Lock()
					account(ids)
					mu.Unlock()
					b.Free()
				}
			}
			t.yielded <- evFinished
		}()
	}
	internal.VerifSetHook(s.hook)
	enabled := make([]int, len(s.threads))
	for i := range enabled {
		enabled[i] = i
	}
	cur := -1
	for step := 0; len(enabled) > 0; step++ {
		n := choose(step, cur, enabled)
		t := s.threads[n]
		s.cur.Store(t)
		t.resume <- struct{}{}
		ev := <-t.yielded
		out.steps = append(out.steps, c08Step{n, ev})
		if ev == internal.VPBufBeforeTokenCAS {
			// remember whether the token is free when the filler gets there
			if !b.VerifState().TokenFree {
				out.tokenFail = true
			}
		}
		cur = n
		if ev == evFinished {
			for i, e := range enabled {
				if e == n {
					enabled = append(enabled[:i], enabled[i+1:]...)
					break
				}
			}
			cur = -1
		}
		in := 0
		for _, e := range enabled {
			if s.threads[e].inAdd {
				in++
			}
		}
		if in >= 2 {
			out.overlap = true
		}
	}
	s.cur.Store(nil)
	internal.VerifSetHook(nil)
	// ---- quiescent checks
	st := b.VerifState()
	if !st.TokenFree {
		addIssue("token-lost", "all readers returned and every batch was freed, but the stripe's token is not available (head=%d tail=%d)", st.Head, st.Tail)
	}
	// behavioural epilogue: 33 sequential adds must deliver something
	got := 0
	for i := 0; i < 33; i++ {
		nextID++
		added[nextID] = true
		if pb := b.Add(internal.VerifReadItem[int, int](nextID)); pb != nil {
			got++
			account(consume(pb))
			b.Free()
		}
	}
	if got == 0 {
		addIssue("stripe-dead", "33 sequential reads after the burst produced no batch (head=%d tail=%d before the epilogue)", st.Head, st.Tail)
	}
	out.added = len(added)
	out.delivered = len(delivered)
	return out
}

func c08Report(r *Run, c c08Case, o c08Outcome, sigSeen map[uint64]struct{}) {
	r.Eval(1)
	r.Count("buffer_adds", int64(o.added))
	r.Count("buffer_items_delivered", int64(o.delivered))
	r.Count("buffer_batches", int64(o.batches))
	if o.tokenFail {
		r.Count("schedules_filler_found_token_taken", 1)
	}
	if o.overlap {
		r.Count("schedules_with_overlapping_adds", 1)
		h := hashStr(fmt.Sprint(c.Prefill, c.Adds) + stepsString(o.steps))
		if sigSeen != nil {
			sigSeen[h] = struct{}{}
		}
		r.DistinctHash(h)
	}
	for _, is := range o.issues {
		key := is.Key
		if key == "stripe-dead" && o.tokenFail {
			key += "/refilled-while-previous-batch-held"
		}
		r.Violate(key, "buffer schedule ("+c.Mode+"): "+is.What, map[string]any{"case": c, "schedule": stepsString(o.steps)})
	}
}

// ---- schedule generators

func c08Random(r *Run, rng *rand.Rand, n int) {
	for i := 0; i < n; i++ {
		nt := 2 + rng.Intn(3)
		c := c08Case{Prefill: rng.Intn(16), Mode: "random-walk"}
		for t := 0; t < nt; t++ {
			c.Adds = append(c.Adds, 1+rng.Intn(20))
		}
		var o c08Outcome
		if i%2 == 0 {
			o = c08RunSchedule(c, func(step, cur int, en []int) int { return en[rng.Intn(len(en))] })
		} else {
			// PCT: random priorities, d priority-change points
			c.Mode = "pct"
			prio := rng.Perm(nt)
			d := 1 + rng.Intn(4)
			change := map[int]bool{}
			for k := 0; k < d; k++ {
				change[rng.Intn(40*nt)] = true
			}
			low := -1
			o = c08RunSchedule(c, func(step, cur int, en []int) int {
				if change[step] && cur >= 0 {
					prio[cur] = low
					low--
				}
				best := en[0]
				for _, e := range en {
					if prio[e] > prio[best] {
						best = e
					}
				}
				return best
			})
		}
		c08Report(r, c, o, nil)
		if i < 2 {
			r.Sample(6, map[string]any{"case": c, "schedule": stepsString(o.steps), "delivered": o.delivered, "added": o.added})
		}
	}
}

// c08DFS enumerates every schedule of case c with at most c.Bound preemptions.
// Returns the number of schedules and whether the enumeration completed.
func c08DFS(r *Run, c c08Case, budget int) (int, bool) {
	type frame struct {
		opts []int
		idx  int
	}
	var stack []frame
	count := 0
	for {
		depth := 0
		preempt := 0
		broken := false
		o := c08RunSchedule(c, func(step, cur int, en []int) int {
			var opts []int
			curEnabled := false
			for _, e := range en {
				if e == cur {
					curEnabled = true
				}
			}
			if curEnabled {
				opts = append(opts, cur)
				if preempt < c.Bound {
					for _, e := range en {
						if e != cur {
							opts = append(opts, e)
						}
					}
				}
			} else {
				opts = append(opts, en...)
			}
			if depth < len(stack) {
				f := stack[depth]
				if len(f.opts) != len(opts) {
					broken = true
				}
			} else {
				stack = append(stack, frame{opts: opts})
			}
			f := stack[depth]
			depth++
			pick := f.opts[f.idx%len(f.opts)]
			if curEnabled && pick != cur {
				preempt++
			}
			return pick
		})
		if broken {
			r.Broken("C08 DFS: the buffer did not behave deterministically under the cooperative scheduler (case %+v)", c)
			return count, false
		}
		stack = stack[:depth]
		count++
		c08Report(r, c, o, nil)
		if count == 1 {
			r.Sample(6, map[string]any{"case": c, "schedule": stepsString(o.steps), "delivered": o.delivered, "added": o.added})
		}
		for len(stack) > 0 && stack[len(stack)-1].idx+1 >= len(stack[len(stack)-1].opts) {
			stack = stack[:len(stack)-1]
		}
		if len(stack) == 0 {
			return count, true
		}
		stack[len(stack)-1].idx++
		if count >= budget {
			return count, false
		}
	}
}

// ---------------------------------------------------------------- store level

type c08StoreCfg struct {
	MaxSize int    `json:"maxsize"`
	Readers int    `json:"readers"`
	Stall   string `json:"stall"`
	Keys    int    `json:"resident_keys"`
	Loading bool   `json:"loading"`
}

func c08StoreRound(r *Run, idx int) {
	rng := r.Rng(int64(5000 + idx))
	cfg := c08StoreCfg{MaxSize: []int{2000, 10000}[rng.Intn(2)], Readers: []int{2, 3, 4, 8, 16, 32, 64}[rng.Intn(7)],
		Stall: []string{"policy-lock", "savecache-blocked-writer", "listener-blocked"}[idx%3], Keys: 200 + rng.Intn(800)}
	lg := &noteLog[int, int]{}
	c, err := theine.NewBuilder[int, int](int64(cfg.MaxSize)).RemovalListener(lg.listener()).Build()
	if err != nil {
		r.Broken("build: %v", err)
		return
	}
	defer c.Close()
	st := c.VerifStore()
	for k := 0; k < cfg.Keys; k++ {
		c.Set(k, k, 1)
	}
	c.Wait()
	// ---- stall maintenance
	var release func()
	switch cfg.Stall {
	case "policy-lock":
		st.VerifPolicyLock()
		release = st.VerifPolicyUnlock
	case "savecache-blocked-writer":
		w := &blockingWriter{gate: make(chan struct{}), first: make(chan struct{})}
		done := make(chan error, 1)
		go func() { done <- c.SaveCache(1, w) }()
		<-w.first
		release = func() { close(w.gate); <-done }
	case "listener-blocked":
		gate := make(chan struct{})
		lg.mu.Lock()
		lg.gate = gate
		lg.mu.Unlock()
		n0 := len(lg.snapshot())
		c.Delete(cfg.Keys - 1) // REMOVED notification blocks the maintenance goroutine under the policy lock
		for len(lg.snapshot()) == n0 {
			time.Sleep(200 * time.Microsecond)
		}
		release = func() {
			lg.mu.Lock()
			lg.gate = nil
			lg.mu.Unlock()
			close(gate)
		}
	}
	// ---- burst of reads while stalled
	var progress atomic.Int64
	var wg sync.WaitGroup
	perReader := 4000
	for g := 0; g < cfg.Readers; g++ {
		wr := rand.New(rand.NewSource(rng.Int63()))
		wg.Add(1)
		go func() {
			defer wg.Done()
			for i := 0; i < perReader; i++ {
				c.Get(wr.Intn(cfg.Keys - 1))
				progress.Add(1)
			}
		}()
	}
	// wait until the readers stop making progress (all parked on the policy lock, or done)
	last, same := int64(-1), 0
	for same < 5 {
		time.Sleep(2 * time.Millisecond)
		p := progress.Load()
		if p == last {
			same++
		} else {
			same, last = 0, p
		}
	}
	stalledAt := progress.Load()
	release()
	wg.Wait()
	c.Wait()
	// ---- quiescent stripe check: remember where every stripe stands
	tokenLost, fullNow := 0, 0
	bufs := st.VerifBuffers()
	before := make([]internal.VerifBufState, len(bufs))
	for i, b := range bufs {
		before[i] = b.VerifState()
		if before[i].Tail-before[i].Head >= 16 {
			fullNow++
		}
		if !before[i].TokenFree {
			tokenLost++
		}
	}
	r.Eval(1)
	r.Count("store_rounds", 1)
	r.Count("store_reads_during_stall", stalledAt)
	r.Count("stripes_full_when_burst_ended", int64(fullNow))
	r.CountMax("max_readers_parked_behind_stall", int64(cfg.Readers))
	wit := map[string]any{"config": cfg, "round": idx, "stripes": len(bufs), "stripes_full_when_burst_ended": fullNow, "reads_before_all_readers_parked": stalledAt}
	if tokenLost > 0 {
		r.Violate("token-lost", fmt.Sprintf("store round %d: %d stripes have no token available after all readers returned", idx, tokenLost), wit)
	}
	// progress oracle: 128 further hits per stripe on average (>= 17 needed; the
	// chance that a stripe receives fewer is negligible) must move every stripe's head
	for i := 0; i < 128*len(bufs); i++ {
		c.Get(i % (cfg.Keys - 1))
	}
	wedged := 0
	var sampleState internal.VerifBufState
	for i, b := range bufs {
		s := b.VerifState()
		if s.Head == before[i].Head {
			wedged++
			sampleState = s
		}
	}
	wit["wedged"] = wedged
	if wedged > 0 {
		r.Violate("stripe-wedged/refilled-while-previous-batch-held",
			fmt.Sprintf("store round %d (%d readers, stall by %s): %d of %d read-buffer stripes delivered nothing during %d further hits after the burst ended (e.g. head=%d tail=%d, token free=%v): they will never deliver another hit",
				idx, cfg.Readers, cfg.Stall, wedged, len(bufs), 128*len(bufs), sampleState.Head, sampleState.Tail, sampleState.TokenFree), wit)
	}
	// ---- behavioural: further hits improve the key's standing
	probe := cfg.Keys / 2
	e0 := st.VerifEstimate(probe)
	for i := 0; i < 4096; i++ {
		c.Get(probe)
	}
	e1 := st.VerifEstimate(probe)
	r.Count("epilogue_probes", 1)
	if !(e1 > e0 || e1 >= 15) {
		key := "hits-not-recorded-after-burst"
		if wedged > 0 {
			key += "/stripes-wedged"
		}
		wit["estimate_before"], wit["estimate_after"] = e0, e1
		r.Violate(key, fmt.Sprintf("store round %d (%d readers, stall by %s): 4096 further hits on resident key %d left its frequency estimate at %d (was %d)", idx, cfg.Readers, cfg.Stall, probe, e1, e0), wit)
	}
	r.Distinct(fmt.Sprintf("store/%s/r%d/m%d", cfg.Stall, cfg.Readers, cfg.MaxSize))
	r.Sample(9, map[string]any{"store_round": cfg, "reads_before_all_readers_parked": stalledAt, "wedged_stripes": wedged, "estimate_before": e0, "estimate_after": e1})
}

// ---------------------------------------------------------------- entry point

// c08NoInvention: "every event it delivers corresponds to one real hit and is delivered once", seen from the cache's
// public face. Key B is read until its frequency estimate is saturated (which also pushes every pending event through
// the stripes); key A must then stand at exactly 1 (its insertion) - so at least one of A's counters is its own and
// nothing B does can raise A's estimate any more. A is hit h times (h <= 12, fewer than a stripe holds, so the events
// stay pending), one of the cache's public calls that touch the policy runs (SaveCache, Wait, Range, Len,
// EstimatedSize, Stats), and B is read again from several goroutines until the stripes have been drained. However
// many of A's events were dropped on the way, its estimate may not exceed 1 + h: anything above is a hit that never
// happened. (Aging only lowers estimates.)
func c08NoInvention(r *Run, idx int) {
	rng := r.Rng(int64(5700 + idx))
	c, err := theine.NewBuilder[int, int](1000).Build()
	if err != nil {
		r.Broken("build: %v", err)
		return
	}
	defer c.Close()
	st := c.VerifStore()
	a, b := 1000+rng.Intn(100000), 200000+rng.Intn(100000)
	c.Set(a, 1, 1)
	c.Set(b, 2, 1)
	c.Wait()
	pump := func(g int) {
		var wg sync.WaitGroup
		for i := 0; i < g; i++ {
			wg.Add(1)
			go func() {
				defer wg.Done()
				for j := 0; j < 2048; j++ {
					c.Get(b)
				}
			}()
		}
		wg.Wait()
	}
	pump(1)
	pump(runtime.GOMAXPROCS(0))
	if st.VerifEstimate(b) < 15 || st.VerifEstimate(a) != 1 {
		r.Inconclusive(1) // B not saturated, or A shares all its counters with B
		return
	}
	h := 1 + rng.Intn(12)
	for i := 0; i < h; i++ {
		c.Get(a)
	}
	op := []string{"SaveCache", "Wait", "Range", "Len+EstimatedSize+Stats", "SaveCache twice"}[idx%5]
	switch op {
	case "SaveCache":
		_ = c.SaveCache(1, io.Discard)
	case "SaveCache twice":
		_ = c.SaveCache(1, io.Discard)
		_ = c.SaveCache(1, io.Discard)
	case "Wait":
		c.Wait()
	case "Range":
		c.Range(func(int, int) bool { return true })
	default:
		_ = c.Len() + c.EstimatedSize()
		_ = c.Stats()
	}
	mid := st.VerifEstimate(a)
	pump(1)
	pump(runtime.GOMAXPROCS(0))
	c.Wait()
	end := st.VerifEstimate(a)
	r.Eval(1)
	r.Count("no_invention_rounds", 1)
	if end == uint(1+h) {
		r.Count("no_invention_rounds_all_hits_delivered", 1)
	}
	r.Distinct(fmt.Sprintf("no-invention/%s/h=%d", op, h))
	if mid > uint(1+h) || end > uint(1+h) {
		r.Violate("read-events-invented/estimate-above-real-hits", fmt.Sprintf("round %d: key %d was inserted once and hit %d times; after %s its frequency estimate was %d, after the stripes were drained %d (at most %d is possible: the key's estimate stood at 1 with every other key in use saturated)", idx, a, h, op, mid, end, 1+h),
			map[string]any{"round": idx, "hits": h, "operation_between": op, "estimate_after_operation": mid, "estimate_at_end": end})
	}
}

func runC08(r *Run) {
	r.Rule("case = one complete interleaving of 2-4 readers adding to one real Buffer stripe under the cooperative scheduler (yield before every atomic step of Add/Free), or one store round (readers during stalled maintenance, then quiescent stripe check + 4096-hit epilogue). Non-trivial = >=2 readers were inside Add at the same time (distinct by full schedule signature), or a store round (distinct by stall method/readers/size)")
	r.Assume("one goroutine runs at a time under the cooperative scheduler, so the interleaving is exactly the recorded schedule",
		"the white-box accessor reads head/tail/token of each stripe at quiescence")
	mode := r.Args["mode"]
	rng := r.Rng(1)
	if mode == "" || mode == "sched" {
		c08Random(r, rng, r.Pick(1500, 60000))
		// bounded-exhaustive DFS around the fill point; shard s takes cases s, s+n, …
		var cases []c08Case
		for _, pre := range []int{13, 14, 15} {
			for _, a := range [][]int{{1, 16}, {1, 17}, {2, 17}, {2, 2}, {3, 3}, {1, 1, 16}, {2, 2, 2}} {
				cases = append(cases, c08Case{Prefill: pre, Adds: a, Mode: "dfs", Bound: 2})
			}
		}
		if r.Thorough() {
			for _, pre := range []int{14, 15} {
				for _, a := range [][]int{{1, 16}, {2, 17}, {2, 2}} {
					cases = append(cases, c08Case{Prefill: pre, Adds: a, Mode: "dfs", Bound: 3})
				}
			}
		}
		total, complete, ran := 0, true, 0
		for i, c := range cases {
			if i%r.NShards != r.Shard {
				continue
			}
			n, done := c08DFS(r, c, r.Pick(6000, 400000))
			total += n
			ran++
			complete = complete && done
			r.Count("dfs_cases", 1)
			if done {
				r.Count("dfs_cases_enumerated_completely", 1)
			}
		}
		r.Count("dfs_schedules", int64(total))
		r.Exhaustive(false)
	}
	if mode == "" || mode == "store" {
		n := r.Pick(6, 60)
		idxs := []int{}
		for i := 0; i < n*r.NShards; i++ {
			if i%r.NShards == r.Shard {
				idxs = append(idxs, i)
			}
		}
		sort.Ints(idxs)
		for _, i := range idxs {
			c08StoreRound(r, i)
		}
		for _, i := range idxs {
			for j := 0; j < 5; j++ {
				c08NoInvention(r, i*5+j)
			}
			c08PooledNoInvention(r, i)
		}
	}
}

// c08PooledNoInvention: "every event it delivers corresponds to one real hit" with the entry pool on. Keys with a short
// TTL are hit once or twice - fewer hits than fill a stripe, so the events wait in the read buffers -, expire and
// are reclaimed (their entries return to the pool); new keys, never read, are stored in the recycled entries and pass
// through the window into probation; then the stripes are drained by reads of one other key. A key that was never
// read can only be in the protected region if a hit that was not its own was applied to it.
func c08PooledNoInvention(r *Run, idx int) {
	rng := r.Rng(int64(5900 + idx))
	done := r.Case(fmt.Sprintf("pooled-no-invention %d pool=true", idx))
	defer done()
	c, err := theine.NewBuilder[int, int](1000).UseEntryPool(true).Build()
	if err != nil {
		r.Broken("build: %v", err)
		return
	}
	defer c.Close()
	st := c.VerifStore()
	n := 80 + rng.Intn(60)
	const pumpKey = 900000
	c.Set(pumpKey, 1, 1)
	for k := 0; k < n; k++ {
		c.SetWithTTL(k, k, 1, time.Second)
	}
	c.Wait()
	pending := 0
	for k := 0; k < n; k++ { // on average two or three events per stripe: nothing is drained yet
		c.Get(k)
		pending++
		if rng.Intn(2) == 0 {
			c.Get(k)
			pending++
		}
	}
	st.VerifShiftClock(3*time.Second, true)
	st.VerifTick()
	c.Wait()
	reclaimed := 0
	for k := 0; k < n; k++ {
		if !st.VerifResident(k) {
			reclaimed++
		}
	}
	for k := 0; k < n; k++ { // never read
		c.Set(500000+k, k, 1)
	}
	c.Wait()
	var wg sync.WaitGroup
	for g := 0; g < runtime.GOMAXPROCS(0); g++ {
		wg.Add(1)
		go func() {
			defer wg.Done()
			for j := 0; j < 4096; j++ {
				c.Get(pumpKey)
			}
		}()
	}
	wg.Wait()
	c.Wait()
	sn := st.VerifSnapshot()
	promoted, first := 0, 0
	for _, e := range sn.Protected.Entries {
		if e.Key >= 500000 && e.Key < 500000+n {
			promoted++
			if promoted == 1 {
				first = e.Key
			}
		}
	}
	r.Eval(1)
	r.Count("pooled_no_invention_rounds", 1)
	r.Count("pooled_entries_reclaimed_with_read_events_pending", int64(reclaimed))
	r.Distinct(fmt.Sprintf("pooled-no-invention/n=%d", n/20))
	if promoted > 0 {
		r.Violate("read-events-invented/never-read-key-promoted/entry-pool", fmt.Sprintf("round %d (entry pool on): %d keys with a TTL were hit %d times in all and then expired (%d reclaimed), %d new keys were stored and never read, the read buffers were drained by reads of another key: %d of the never-read keys are in the protected region (first: %d), where only a hit takes an entry", idx, n, pending, reclaimed, n, promoted, first),
			map[string]any{"round": idx, "never_read_keys_promoted": promoted})
	}
}
