package main

import (
	"context"
	"fmt"
	"math/rand"
	"runtime"
	"sync"
	"sync/atomic"
	"time"

	theine "github.com/Yiling-J/theine-go"
	"github.com/Yiling-J/theine-go/internal"
)

// C05 — exactly one removal notification per departed entry, true reason.
//
// Ledger monitor. Every written value is unique, so a notification identifies
// the incarnation it speaks about. In *owner mode* each key is written by one
// goroutine only (all goroutines share the cache and the asynchronous
// pipeline), so the per-key order of writes is known and the ledger is exact:
//   * the value that preceded each Delete, and each key's final value, is in
//     exactly one of {resident, notified exactly once};
//   * an overwritten value may be notified at most once, only EVICTED/EXPIRED
//     (the entry left while it held that value);
//   * REMOVED only for a value directly followed by its owner's Delete;
//     EXPIRED only for a value written with a TTL (or onto an entry that had one);
//   * nothing is notified that is still resident, never written, or under
//     another key; no value is notified twice.
// The phase scheduler of C02 replays its scripts with the script ledger on.

func init() { registry["C05"] = runC05 }

// c05ScriptLedger: exact ledger for a phase-scheduler script (all map phases
// happen, in script order, before any event reaches the policy).
func c05ScriptLedger(sc c02Script, sn internal.VerifSnapshot[int, int64], notes []note[int, int64], written map[int64]int) []invIssue {
	var out []invIssue
	add := func(k, f string, a ...any) { out = append(out, invIssue{k, fmt.Sprintf(f, a...)}) }
	type inc struct {
		key     int
		vals    []int64
		ttl     bool
		deleted bool
	}
	var incs []*inc
	cur := map[int]*inc{}
	for i, op := range sc.Ops {
		val := int64(i+1)<<20 | int64(op.Key)
		switch op.Kind {
		case 'S', 'T':
			in := cur[op.Key]
			if in == nil {
				in = &inc{key: op.Key}
				cur[op.Key] = in
				incs = append(incs, in)
			}
			in.vals = append(in.vals, val)
			if op.Kind == 'T' {
				in.ttl = true
			}
		case 'D':
			if in := cur[op.Key]; in != nil {
				in.deleted = true
				delete(cur, op.Key)
			}
		}
	}
	resident := map[int]int64{}
	for _, e := range sn.Map {
		resident[e.Key] = e.Value
	}
	byVal := map[int64][]note[int, int64]{}
	for _, n := range notes {
		byVal[n.Val] = append(byVal[n.Val], n)
		if k, ok := written[n.Val]; !ok {
			add("notified-unknown-value", "listener called with key %d value %#x (%s) which was never written", n.Key, n.Val, reasonName(n.Reason))
		} else if k != n.Key {
			add("notified-wrong-key", "value %#x was written under key %d but notified under key %d", n.Val, k, n.Key)
		}
	}
	for _, in := range incs {
		last := in.vals[len(in.vals)-1]
		for _, v := range in.vals[:len(in.vals)-1] {
			if ns := byVal[v]; len(ns) > 0 {
				add("notified-overwritten-value", "key %d: value %#x was overwritten in place before the entry left, yet it was notified (%s)", in.key, v, reasonName(ns[0].Reason))
			}
		}
		ns := byVal[last]
		isResident := !in.deleted && resident[in.key] == last
		switch {
		case isResident && len(ns) > 0:
			add("notified-while-resident", "key %d value %#x is still resident but was notified as %s", in.key, last, reasonName(ns[0].Reason))
		case isResident:
		case len(ns) == 0 && in.deleted:
			add("no-notification/deleted-entry", "key %d value %#x left through Delete but the listener was never called for it", in.key, last)
		case len(ns) == 0:
			add("no-notification/evicted-or-expired-entry", "key %d value %#x is no longer resident (not deleted) but the listener was never called for it", in.key, last)
		case len(ns) > 1:
			add("notified-twice", "key %d value %#x notified %d times (%s, %s)", in.key, last, len(ns), reasonName(ns[0].Reason), reasonName(ns[1].Reason))
		default:
			n := ns[0]
			if in.deleted && n.Reason != theine.REMOVED {
				add("wrong-reason", "key %d value %#x left through Delete but was notified as %s", in.key, last, reasonName(n.Reason))
			}
			if !in.deleted && n.Reason == theine.REMOVED {
				add("wrong-reason", "key %d value %#x was never deleted but was notified as REMOVED", in.key, last)
			}
			if n.Reason == theine.EXPIRED && !in.ttl {
				add("wrong-reason", "key %d value %#x never had a TTL but was notified as EXPIRED", in.key, last)
			}
		}
	}
	return out
}

// ---------------------------------------------------------------- owner-mode ledger

type c05Write struct {
	val int64
	ttl time.Duration // 0 = none given by this call
	dLo int64         // earliest possible deadline (virtual now before the call + ttl), 0 if none
	del bool          // this record is a Delete
	ok  bool          // Set returned true
}

type c05Round struct {
	MaxSize  int64  `json:"maxsize"`
	Clients  int    `json:"clients"`
	KeysPer  int    `json:"keys_per_client"`
	Ops      int    `json:"ops_per_client"`
	Pool     bool   `json:"entry_pool"`
	TTLs     bool   `json:"ttls"`
	Delay    int    `json:"h1_delay_mode"`
	Notes    int    `json:"notifications"`
	ByReason [3]int `json:"by_reason"`
}

func c05Owner(r *Run, round int) {
	rng := r.Rng(int64(round))
	cfg := c05Round{
		MaxSize: []int64{1, 4, 50, 1000}[rng.Intn(4)],
		Clients: []int{2, 4, 8, 16, 32}[rng.Intn(5)],
		KeysPer: 1 + rng.Intn(12),
		Ops:     r.Pick(1500, 4000),
		Pool:    rng.Intn(3) == 0,
		TTLs:    rng.Intn(2) == 0,
		Delay:   rng.Intn(3),
	}
	defer r.Case(fmt.Sprintf("owner round %d maxsize=%d clients=%d pool=%v", round, cfg.MaxSize, cfg.Clients, cfg.Pool))()
	nl := &noteLog[int, int64]{}
	c, err := theine.NewBuilder[int, int64](cfg.MaxSize).UseEntryPool(cfg.Pool).RemovalListener(nl.listener()).Build()
	if err != nil {
		r.Broken("build: %v", err)
		return
	}
	defer c.Close()
	st := c.VerifStore()
	var hits atomic.Int64
	if cfg.Delay > 0 {
		internal.VerifSetHook(func(id int) {
			if id != internal.VPBeforeEvent {
				return
			}
			n := hits.Add(1)
			if cfg.Delay == 1 {
				runtime.Gosched()
			} else {
				spin(int(n % 9))
			}
		})
		defer internal.VerifSetHook(nil)
	}
	logs := make([]map[int][]c05Write, cfg.Clients)
	var wg sync.WaitGroup
	for cl := 0; cl < cfg.Clients; cl++ {
		logs[cl] = map[int][]c05Write{}
		wr := rand.New(rand.NewSource(rng.Int63()))
		wg.Add(1)
		go func(cl int) {
			defer wg.Done()
			lg := logs[cl]
			for i := 0; i < cfg.Ops; i++ {
				k := cl*1000 + wr.Intn(cfg.KeysPer)
				v := int64(cl+1)<<40 | int64(i+1)
				switch x := wr.Intn(100); {
				case x < 50:
					ok := c.Set(k, v, 1)
					lg[k] = append(lg[k], c05Write{val: v, ok: ok})
				case x < 65 && cfg.TTLs:
					ttl := time.Duration(1+wr.Intn(3000)) * time.Millisecond
					lo := st.VerifNowNano()
					ok := c.SetWithTTL(k, v, 1, ttl)
					lg[k] = append(lg[k], c05Write{val: v, ttl: ttl, dLo: lo + int64(ttl), ok: ok})
				case x < 90:
					c.Delete(k)
					lg[k] = append(lg[k], c05Write{del: true})
				default:
					c.Get(k)
				}
			}
		}(cl)
	}
	wg.Wait()
	c.Wait()
	if cfg.TTLs {
		// let the short TTLs pass in virtual time and run the tick body
		st.VerifShiftClock(4*time.Second, true)
		st.VerifTick()
		c.Wait()
	}
	sn := st.VerifSnapshot()
	notes := nl.snapshot()
	cfg.Notes = len(notes)
	resident := map[int]int64{}
	for _, e := range sn.Map {
		resident[e.Key] = e.Value
	}
	byVal := map[int64][]note[int, int64]{}
	for _, n := range notes {
		byVal[n.Val] = append(byVal[n.Val], n)
		if int(n.Reason) < 3 {
			cfg.ByReason[n.Reason]++
		}
	}
	viol := func(key, what string, extra map[string]any) {
		extra["round"] = round
		extra["config"] = cfg
		r.Violate(key, fmt.Sprintf("owner-mode round %d (MaxSize %d, %d clients, pool=%v): %s", round, cfg.MaxSize, cfg.Clients, cfg.Pool, what), extra)
	}
	known := map[int64]int{}
	for cl := range logs {
		for k, ws := range logs[cl] {
			for _, w := range ws {
				if !w.del {
					known[w.val] = k
				}
			}
		}
	}
	for _, n := range notes {
		k, ok := known[n.Val]
		if !ok {
			viol("notified-unknown-value", fmt.Sprintf("listener called with key %d value %#x (%s): no such value was ever written", n.Key, n.Val, reasonName(n.Reason)), map[string]any{})
		} else if k != n.Key {
			viol("notified-wrong-key", fmt.Sprintf("value %#x written under key %d notified under key %d", n.Val, k, n.Key), map[string]any{})
		}
	}
	delRaces := 0
	for cl := range logs {
		for k, ws := range logs[cl] {
			hadTTL := false // whether the current incarnation may carry a deadline
			for i, w := range ws {
				if w.del {
					hadTTL = false
					continue
				}
				if !w.ok {
					continue
				}
				if w.ttl != 0 {
					hadTTL = true
				}
				ns := byVal[w.val]
				last := i == len(ws)-1
				nextDel := !last && ws[i+1].del
				isRes := last && resident[k] == w.val
				excerpt := func() map[string]any {
					lo := i - 4
					if lo < 0 {
						lo = 0
					}
					hi := i + 3
					if hi > len(ws) {
						hi = len(ws)
					}
					return map[string]any{"key": k, "writes_around": fmt.Sprintf("%+v", ws[lo:hi]), "notes_for_value": fmt.Sprintf("%+v", ns), "position": i, "of": len(ws)}
				}
				if len(ns) > 1 {
					viol("notified-twice", fmt.Sprintf("key %d value %#x notified %d times (%s, %s)", k, w.val, len(ns), reasonName(ns[0].Reason), reasonName(ns[1].Reason)), excerpt())
					continue
				}
				if isRes {
					if len(ns) > 0 {
						viol("notified-while-resident", fmt.Sprintf("key %d value %#x is resident but was notified as %s", k, w.val, reasonName(ns[0].Reason)), excerpt())
					}
					continue
				}
				if len(ns) == 1 {
					n := ns[0]
					if n.Reason == theine.REMOVED && !nextDel {
						viol("wrong-reason", fmt.Sprintf("key %d value %#x notified as REMOVED but its owner did not delete it next", k, w.val), excerpt())
					}
					if n.Reason == theine.EXPIRED && !hadTTL {
						viol("wrong-reason", fmt.Sprintf("key %d value %#x notified as EXPIRED but its entry never had a TTL", k, w.val), excerpt())
					}
					if nextDel && n.Reason != theine.REMOVED {
						delRaces++
					}
					continue
				}
				// no notification for this value
				if nextDel || last {
					// this value was the entry's content when it left (or it is gone at the end): one notification is owed,
					// unless the entry had already left earlier while holding an earlier value (then that one was notified
					// and this write created a new incarnation — impossible here: a notification for an earlier value of the
					// same incarnation means the entry left before this write, and this write then made a new entry).
					cause := "no-notification/"
					if nextDel {
						cause += "deleted-entry"
					} else {
						cause += "evicted-or-expired-entry"
					}
					viol(cause, fmt.Sprintf("key %d value %#x: the entry left the cache (%s) but the listener was never called for it",
						k, w.val, map[bool]string{true: "owner's Delete followed", false: "not resident at the end"}[nextDel]), excerpt())
				}
			}
		}
	}
	// conservation, stated globally: owed = resident + notified
	r.Eval(1)
	r.Count("owner_rounds", 1)
	r.Count("notifications_checked", int64(len(notes)))
	r.Count("removed_seen", int64(cfg.ByReason[0]))
	r.Count("evicted_seen", int64(cfg.ByReason[1]))
	r.Count("expired_seen", int64(cfg.ByReason[2]))
	r.Count("delete_lost_race_to_eviction_or_expiry", int64(delRaces))
	reasons := 0
	for _, n := range cfg.ByReason {
		if n > 0 {
			reasons++
		}
	}
	if reasons >= 2 {
		r.Distinct(fmt.Sprintf("owner/M%d/c%d/k%d/p%v/t%v/d%d/%v", cfg.MaxSize, cfg.Clients, cfg.KeysPer, cfg.Pool, cfg.TTLs, cfg.Delay, cfg.ByReason))
	}
	r.Sample(4, cfg)
}

// c05Det: the deterministic form of the delete-vs-eviction overlap. MaxSize 1;
// maintenance is stalled; Set(1); Set(2); Delete(1) are queued; when the
// policy processes NEW(2) it evicts entry 1 whose map slot the API Delete
// already removed; REMOVE(1) follows.
func c05Det(r *Run, variant int) {
	nl := &noteLog[int, int64]{}
	c, err := theine.NewBuilder[int, int64](1).RemovalListener(nl.listener()).Build()
	if err != nil {
		r.Broken("build: %v", err)
		return
	}
	defer c.Close()
	st := c.VerifStore()
	c.Set(1, 11, 1)
	c.Wait()
	st.VerifPolicyLock()
	if variant%2 == 0 {
		c.Set(2, 22, 1)
		c.Delete(1)
	} else {
		c.Delete(1)
		c.Set(2, 22, 1)
	}
	st.VerifPolicyUnlock()
	c.Wait()
	notes := nl.snapshot()
	n11 := 0
	for _, n := range notes {
		if n.Val == 11 {
			n11++
			if n.Reason != theine.REMOVED {
				r.Violate("wrong-reason", fmt.Sprintf("deleted value 11 notified as %s", reasonName(n.Reason)), map[string]any{"notes": fmt.Sprint(notes)})
			}
		}
	}
	if n11 == 0 {
		r.Violate("no-notification/deleted-entry", "MaxSize 1, maintenance stalled, Set(2)+Delete(1) queued: entry 1 left through Delete but the listener was never called for it",
			map[string]any{"variant": variant, "notes": fmt.Sprint(notes)})
	} else if n11 > 1 {
		r.Violate("notified-twice", "value 11 notified more than once", map[string]any{"notes": fmt.Sprint(notes)})
	}
	r.Eval(1)
	r.Distinct(fmt.Sprintf("det/variant%d", variant%2))
}

// c05Kinds: the ledger on the other three cache kinds (loading, hybrid, hybrid-loading), pool on or off. The memory
// tier is large enough that nothing is evicted or demoted, so the ledger is simple and exact: every key that was
// stored and then deleted (its Delete returned without error, all writes applied before and after) is notified
// exactly once as REMOVED with the value it held; no other key is notified; stored = resident + notifications.
// Deletes run concurrently with Sets of other keys; on hybrid kinds the secondary store may refuse calls.
func c05Kinds(r *Run, idx int) {
	rng := r.Rng(int64(55000 + idx))
	kind := []string{"loading", "hybrid", "hybrid-loading"}[idx%3]
	pool := (idx/3)%2 == 1
	failPct := []int{0, 0, 25}[rng.Intn(3)]
	defer r.Case(fmt.Sprintf("kinds round %d kind=%s pool=%v", idx, kind, pool))()
	nl := &noteLog[int, int64]{}
	a, err := newAnyCache(kind, anyOpts{MaxSize: 100000, Listener: nl.listener(), Pool: pool, Prob: 1, ProbSet: true})
	if err != nil {
		r.Broken("build: %v", err)
		return
	}
	defer a.store().Close()
	if a.hybrid() && failPct > 0 {
		frng := rand.New(rand.NewSource(rng.Int63()))
		var fmu sync.Mutex
		a.sec.fail = func(op string, n int64) bool {
			fmu.Lock()
			defer fmu.Unlock()
			return frng.Intn(100) < failPct
		}
	}
	N := 200 + rng.Intn(800)
	val := func(k, gen int) int64 { return int64(gen)<<32 | int64(k) }
	for k := 0; k < N; k++ {
		a.set(k, val(k, 1), 1, 0)
	}
	a.wait()
	// deleters and writers of disjoint key ranges at the same time
	deleted := make([]bool, N)
	var wg sync.WaitGroup
	nd := 2 + rng.Intn(3)
	for g := 0; g < nd; g++ {
		wg.Add(1)
		go func(g int) {
			defer wg.Done()
			for k := g; k < N/2; k += nd {
				if err := a.del(k); err == nil {
					deleted[k] = true
				} else if !a.store().VerifResident(k) {
					deleted[k] = true // the secondary store refused, the memory copy is gone all the same
				}
			}
		}(g)
	}
	wg.Add(1)
	go func() {
		defer wg.Done()
		for k := N / 2; k < N; k++ {
			a.set(k, val(k, 2), 1, 0)
		}
	}()
	wg.Wait()
	a.wait()
	notes := nl.snapshot()
	byKey := map[int][]note[int, int64]{}
	for _, n := range notes {
		byKey[n.Key] = append(byKey[n.Key], n)
	}
	viol := func(key, what string) {
		r.Violate(key+"/"+kind, fmt.Sprintf("kinds round %d (%s cache, pool=%v, secondary failing %d%%, %d keys, no evictions): %s", idx, kind, pool, failPct, N, what),
			map[string]any{"round": idx, "cache": kind, "pool": pool, "notifications": len(notes)})
	}
	resident := 0
	a.rangeAll(func(int, int64) bool { resident++; return true })
	missing, twice, wrong, spurious := 0, 0, 0, 0
	var first string
	for k := 0; k < N; k++ {
		ns := byKey[k]
		switch {
		case deleted[k] && len(ns) == 0:
			missing++
			if first == "" {
				first = fmt.Sprintf("key %d was deleted (value %#x) and never notified", k, val(k, 1))
			}
		case deleted[k] && len(ns) > 1:
			twice++
		case deleted[k] && (ns[0].Reason != theine.REMOVED || ns[0].Val != val(k, 1)):
			wrong++
			if first == "" {
				first = fmt.Sprintf("key %d deleted with value %#x, notified %#x as %s", k, val(k, 1), ns[0].Val, reasonName(ns[0].Reason))
			}
		case !deleted[k] && len(ns) > 0:
			spurious++
			if first == "" {
				first = fmt.Sprintf("key %d is still stored but was notified (%#x, %s)", k, ns[0].Val, reasonName(ns[0].Reason))
			}
		}
	}
	if missing > 0 {
		viol("no-notification/deleted-entry", fmt.Sprintf("%d deleted entries were never notified (first: %s)", missing, first))
	}
	if twice > 0 {
		viol("notified-twice", fmt.Sprintf("%d deleted entries were notified more than once", twice))
	}
	if wrong > 0 {
		viol("wrong-reason", fmt.Sprintf("%d deleted entries were notified with another reason or value (first: %s)", wrong, first))
	}
	if spurious > 0 {
		viol("notified-while-resident", fmt.Sprintf("%d entries that were never deleted were notified (first: %s)", spurious, first))
	}
	nDel := 0
	for _, d := range deleted {
		if d {
			nDel++
		}
	}
	if resident+len(notes) != N && missing+twice+spurious == 0 {
		viol("ledger-does-not-balance", fmt.Sprintf("stored %d != resident %d + notifications %d", N, resident, len(notes)))
	}
	r.Eval(1)
	r.Count("kinds_rounds", 1)
	r.Count("kinds_deletes_checked", int64(nDel))
	r.Distinct(fmt.Sprintf("kinds/%s/pool=%v/fail=%d", kind, pool, failPct))
}

// c05HybridEvictions: a small hybrid / hybrid-loading cache (entry pool on or off) whose secondary store refuses half
// or all of the writes. Every key is stored once with a value that names it. After all writes are applied and all
// hand-offs processed each key is in exactly one place: resident in memory, held by the secondary store with its
// value (the write succeeded: it has not left the cache, no notification), or reported to the listener exactly
// once as EVICTED with its own key and value (the write was refused, or the hand-off queue was full).
func c05HybridEvictions(r *Run, idx int) {
	rng := r.Rng(int64(56000 + idx))
	kind := []string{"hybrid", "hybrid-loading"}[idx%2]
	pool := (idx/2)%2 == 1
	failPct := []int{50, 100}[rng.Intn(2)]
	M := []int64{8, 16, 64}[rng.Intn(3)]
	defer r.Case(fmt.Sprintf("hybrid-evictions round %d kind=%s maxsize=%d pool=%v", idx, kind, M, pool))()
	bar := &secBarrier{}
	internal.VerifSetHook(bar.hook)
	defer internal.VerifSetHook(nil)
	nl := &noteLog[int, int64]{}
	a, err := newAnyCache(kind, anyOpts{MaxSize: M, Listener: nl.listener(), Pool: pool, Prob: 1, ProbSet: true, Workers: 1 + rng.Intn(3)})
	if err != nil {
		r.Broken("build: %v", err)
		return
	}
	defer a.store().Close()
	frng := rand.New(rand.NewSource(rng.Int63()))
	var fmu sync.Mutex
	a.sec.fail = func(op string, n int64) bool {
		if op != "set" {
			return false
		}
		fmu.Lock()
		defer fmu.Unlock()
		return frng.Intn(100) < failPct
	}
	N := 1000 + rng.Intn(1500)
	val := func(k int) int64 { return int64(k)<<20 | 0x5a5a5 }
	for k := 0; k < N; k++ {
		a.set(k, val(k), 1, 0)
		if k%64 == 63 {
			a.wait() // pace the writes so that the hand-off queue does not overflow all the time
		}
	}
	if !bar.settle(a) {
		r.Inconclusive(1)
		return
	}
	resident := map[int]int64{}
	for _, e := range a.store().VerifSnapshot().Map {
		resident[e.Key] = e.Value
	}
	byKey := map[int][]note[int, int64]{}
	for _, n := range nl.snapshot() {
		byKey[n.Key] = append(byKey[n.Key], n)
	}
	viol := func(key, what string) {
		r.Violate(key+"/"+kind, fmt.Sprintf("hybrid-evictions round %d (%s cache, MaxSize %d, pool=%v, secondary refusing %d%% of its writes, %d keys): %s", idx, kind, M, pool, failPct, N, what),
			map[string]any{"round": idx, "cache": kind, "pool": pool})
	}
	var nowhere, twice, wrongVal, both, foreign int
	var first string
	for k, ns := range byKey {
		if k < 0 || k >= N {
			foreign++
			if first == "" {
				first = fmt.Sprintf("the listener was called for key %d, which was never stored (value %#x)", k, ns[0].Val)
			}
		}
	}
	for k := 0; k < N; k++ {
		ns := byKey[k]
		_, inMem := resident[k]
		rec, inSec := a.sec.peek(k)
		inSec = inSec && rec.Val == val(k)
		switch {
		case len(ns) > 1:
			twice++
		case len(ns) == 1 && (ns[0].Val != val(k) || ns[0].Reason != theine.EVICTED):
			wrongVal++
			if first == "" {
				first = fmt.Sprintf("key %d was stored with value %#x and reported as (%#x, %s)", k, val(k), ns[0].Val, reasonName(ns[0].Reason))
			}
		case len(ns) == 1 && (inMem || inSec):
			both++
			if first == "" {
				first = fmt.Sprintf("key %d was reported EVICTED although it is still in the cache (memory: %v, secondary store: %v)", k, inMem, inSec)
			}
		case len(ns) == 0 && !inMem && !inSec:
			nowhere++
			if first == "" {
				first = fmt.Sprintf("key %d is neither in memory nor in the secondary store and was never reported", k)
			}
		}
	}
	if foreign > 0 {
		viol("notified-unknown-value", fmt.Sprintf("%d notifications for keys that were never stored (first: %s)", foreign, first))
	}
	if wrongVal > 0 {
		viol("notified-wrong-value-or-reason", fmt.Sprintf("%d entries were reported with a value other than the one they held, or a reason other than EVICTED (first: %s)", wrongVal, first))
	}
	if twice > 0 {
		viol("notified-twice", fmt.Sprintf("%d entries were reported more than once", twice))
	}
	if both > 0 {
		viol("notified-while-resident", fmt.Sprintf("%d entries were reported although they are still in the cache (first: %s)", both, first))
	}
	if nowhere > 0 {
		viol("no-notification/evicted-entry", fmt.Sprintf("%d entries left the cache without a notification (first: %s)", nowhere, first))
	}
	r.Eval(1)
	r.Count("hybrid_eviction_rounds", 1)
	r.Count("hybrid_eviction_notifications", int64(len(nl.snapshot())))
	r.Distinct(fmt.Sprintf("hybrid-evictions/%s/pool=%v/fail=%d/M%d", kind, pool, failPct, M))
}

func runC05(r *Run) {
	r.Rule("cases: owner-mode concurrent rounds (each key written by one goroutine, shared cache, unique values, exact per-key ledger), deterministic delete-vs-eviction overlaps, the C02 phase-scheduler scripts replayed with the script ledger, and ledger rounds on loading / hybrid / hybrid-loading caches (pool on and off, memory tier large enough that nothing is evicted, Deletes concurrent with Sets of other keys, secondary store refusing a quarter of its calls in a third of the rounds). " +
		"Non-trivial = a round in which entries left by at least two different reasons (distinct by configuration and per-reason counts) or a script in which an event overtook another client's event")
	r.Assume("owner mode: the per-key write order is the owner's program order; values are unique so a notification names its incarnation",
		"an entry 'leaves' when its key's owner deletes it or when it is absent from the final snapshot")
	for i := 0; i < 4; i++ {
		c05Det(r, i)
	}
	c02Phase(r, "C05", true)
	n := r.Pick(6, 60)
	for i := 0; i < n; i++ {
		c05Owner(r, r.Shard*10000+i)
	}
	nk := r.Pick(6, 60)
	for i := 0; i < nk; i++ {
		c05Kinds(r, r.Shard*nk+i)
	}
	for i := 0; i < r.Pick(4, 40); i++ {
		c05HybridEvictions(r, r.Shard*4+i)
	}
	for i := 0; i < r.Pick(4, 40); i++ {
		c05DeadlineBeforeEvent(r, r.Shard*40+i)
	}
}

// c05DeadlineBeforeEvent: a cache a twentieth full, so that nothing is ever evicted for capacity. Keys the policy
// knows are given a new value with a TTL so short that the deadline has passed before the write's own event is
// applied (maintenance is held back by the policy lock for a few milliseconds), or - new keys - are stored with
// such a TTL in the first place. After the release, a step of virtual time and a tick, every such value must have
// been reported exactly once, with its own key and value and the reason EXPIRED: the deadline is why it left.
func c05DeadlineBeforeEvent(r *Run, idx int) {
	rng := r.Rng(int64(5500 + idx))
	kind := []string{"plain", "loading"}[idx%2]
	pool := idx/2%2 == 1
	done := r.Case(fmt.Sprintf("deadline-before-event %d kind=%s pool=%v", idx, kind, pool))
	defer done()
	nl := &noteLog[int, int64]{}
	a, err := newAnyCache(kind, anyOpts{MaxSize: 1000, Listener: nl.listener(), Pool: pool})
	if err != nil {
		r.Broken("build: %v", err)
		return
	}
	defer a.closeAPI()
	st := a.store()
	n := 20 + rng.Intn(30)
	for k := 0; k < n; k++ {
		a.set(k, int64(k)<<8|1, 1, time.Duration(k%2)*time.Hour) // half of them already carry a (long) deadline
	}
	a.wait()
	for k := 0; k < n; k++ {
		_, _, _ = a.get(context.Background(), k)
	}
	a.wait()
	want := map[int]int64{}
	st.VerifPolicyLock()
	for k := 0; k < n; k++ {
		v := int64(k)<<8 | 2
		a.set(k, v, 1, time.Duration(1+rng.Intn(900))*time.Microsecond)
		want[k] = v
	}
	for k := 1000; k < 1000+n/2; k++ { // new keys born with such a TTL
		v := int64(k)<<8 | 2
		a.set(k, v, 1, time.Duration(1+rng.Intn(900))*time.Microsecond)
		want[k] = v
	}
	time.Sleep(3 * time.Millisecond)
	st.VerifPolicyUnlock()
	a.wait()
	st.VerifShiftClock(3*time.Second, true)
	st.VerifTick()
	a.wait()
	st.VerifShiftClock(2*time.Second, true)
	st.VerifTick()
	a.wait()
	got := map[int][]note[int, int64]{}
	for _, nt := range nl.snapshot() {
		if nt.Val&0xff == 2 {
			got[nt.Key] = append(got[nt.Key], nt)
		}
	}
	wit := map[string]any{"round": idx, "cache": kind, "entry_pool": pool, "keys": len(want)}
	for k, v := range want {
		ns := got[k]
		where := "rewritten with a TTL below a millisecond"
		if k >= 1000 {
			where = "stored with a TTL below a millisecond"
		}
		switch {
		case len(ns) == 0 && st.VerifResident(k):
			r.Violate("never-reclaimed/deadline-passed-before-its-event-was-applied", fmt.Sprintf("round %d (%s, pool=%v): key %d %s while maintenance was held back for 3 ms; 5 s and two ticks later it is still resident and was never reported", idx, kind, pool, k, where), wit)
			return
		case len(ns) == 0:
			r.Violate("no-notification/deadline-passed-before-its-event-was-applied", fmt.Sprintf("round %d (%s, pool=%v): key %d %s while maintenance was held back for 3 ms; it is gone and was never reported", idx, kind, pool, k, where), wit)
			return
		case len(ns) > 1:
			r.Violate("notified-twice/deadline-passed-before-its-event-was-applied", fmt.Sprintf("round %d (%s, pool=%v): key %d %s: value %d reported %d times", idx, kind, pool, k, where, v, len(ns)), wit)
			return
		case ns[0].Val != v || ns[0].Reason != theine.EXPIRED:
			r.Violate("wrong-reason/deadline-passed-before-its-event-was-applied/"+reasonName(ns[0].Reason), fmt.Sprintf("round %d (%s, pool=%v, MaxSize 1000 holding %d): key %d %s while maintenance was held back for 3 ms: reported as (%d, %s), want (%d, EXPIRED) - the cache was never near its capacity and the key was not deleted", idx, kind, pool, len(want), k, where, ns[0].Val, reasonName(ns[0].Reason), v), wit)
			return
		}
	}
	r.Eval(1)
	r.Count("values_whose_deadline_passed_before_their_event_was_applied", int64(len(want)))
	r.Distinct(fmt.Sprintf("deadline-before-event/%s/pool=%v", kind, pool))
}
