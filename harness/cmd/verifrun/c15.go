package main

import (
	"bytes"
	"context"
	"fmt"
	"strings"
	"sync/atomic"
	"time"

	theine "github.com/Yiling-J/theine-go"
	"github.com/Yiling-J/theine-go/internal"
)

// C15 — hybrid cache: evicted entries reach the secondary tier; memory stays
// bounded.
//
// Healthy rounds (admission probability 1, working secondary store): N keys are
// stored by Set (and, in the loading kind, half of them through the loader),
// with and without TTL, into a memory tier of MaxSize M < N. Writes are paced:
// after every batch the round waits until all write events are applied and
// every hand-off is processed (hooks H4: enqueued == processed), so the
// bounded hand-off queue never overflows — the condition under which the
// property promises demotion. At every barrier:
//   * every key stored so far and not deleted is retrievable with its latest
//     value WITHOUT running the loader, whichever tier holds it;
//   * every secondary-store Set received the entry's value, cost, and a deadline
//     consistent with the TTL it was stored with (0 iff none);
//   * the memory tier holds at most M (Len and EstimatedSize).
// Failing rounds (each secondary call fails with PRNG probability): the error
// handler has been called once per failed asynchronous Set, and at every
// barrier the memory tier still holds at most M entries.

func init() { registry["C15"] = runC15 }

type c15Cfg struct {
	Kind    string `json:"cache"`
	MaxSize int    `json:"maxsize"`
	Keys    int    `json:"keys"`
	Workers int    `json:"workers"`
	TTLs    string `json:"ttls"`
	FailPct int    `json:"secondary_failure_percent"`
	Deletes bool   `json:"with_deletes"`
}

type c15Want struct {
	val      int64
	ttl      time.Duration
	tLo, tHi int64 // cache clock before / after the write
	viaLoad  bool
}

func c15Round(r *Run, idx int) {
	rng := r.Rng(int64(15000 + idx))
	cfg := c15Cfg{Kind: []string{"hybrid", "hybrid-loading"}[idx%2], MaxSize: []int{20, 50, 100}[rng.Intn(3)], Workers: []int{1, 2, 8}[rng.Intn(3)],
		TTLs: []string{"none", "all", "mixed"}[rng.Intn(3)], Deletes: rng.Intn(2) == 0}
	if idx%3 == 2 {
		cfg.FailPct = []int{20, 50, 100}[rng.Intn(3)]
	}
	cfg.Keys = cfg.MaxSize*3 + rng.Intn(cfg.MaxSize*3)
	bar := &secBarrier{}
	internal.VerifSetHook(bar.hook)
	defer internal.VerifSetHook(nil)
	defer r.Eval(1) // every round that ran is a case, also one that ended with a violation
	var loads atomic.Int64
	ttlFor := func(k int) time.Duration {
		switch cfg.TTLs {
		case "all":
			return time.Duration(100+k) * time.Second
		case "mixed":
			if k%2 == 0 {
				return time.Duration(100+k) * time.Second
			}
		}
		return 0
	}
	a, err := newAnyCache(cfg.Kind, anyOpts{MaxSize: int64(cfg.MaxSize), KeepLog: true, Workers: cfg.Workers, Prob: 1, ProbSet: true,
		Loader: func(ctx context.Context, k int) (theine.Loaded[int64], error) {
			n := loads.Add(1)
			return theine.Loaded[int64]{Value: int64(k)<<20 | n, Cost: 1, TTL: ttlFor(k)}, nil
		}})
	if err != nil {
		r.Broken("build: %v", err)
		return
	}
	defer a.store().Close()
	st := a.store()
	var failedSets atomic.Int64
	if cfg.FailPct > 0 {
		a.sec.fail = func(op string, n int64) bool {
			if op != "set" {
				return false
			}
			if int(uint64(n*2654435761)%100) < cfg.FailPct {
				failedSets.Add(1)
				return true
			}
			return false
		}
	}
	label := fmt.Sprintf("round %d (%s, MaxSize %d, %d keys, %d workers, ttls=%s, failing=%d%%)", idx, cfg.Kind, cfg.MaxSize, cfg.Keys, cfg.Workers, cfg.TTLs, cfg.FailPct)
	wit := func(extra map[string]any) map[string]any {
		extra["config"] = cfg
		extra["round"] = idx
		extra["secondary_entries"] = a.sec.size()
		return extra
	}
	want := map[int]*c15Want{}
	seq := int64(0)
	store := func(k int) {
		w := &c15Want{ttl: ttlFor(k)}
		w.tLo = st.VerifNowNano()
		if a.loading() && k%2 == 1 {
			v, _, err := a.get(context.Background(), k)
			if err != nil {
				return
			}
			w.val, w.viaLoad = v, true
		} else {
			seq++
			w.val = int64(k)<<20 | 1<<19 | seq
			if !a.set(k, w.val, 1, w.ttl) {
				return
			}
		}
		w.tHi = st.VerifNowNano()
		want[k] = w
	}
	batch := 10 + rng.Intn(30)
	barriers := 0
	for k := 0; k < cfg.Keys; k++ {
		store(k)
		if cfg.Deletes && rng.Intn(15) == 0 && k > 0 {
			dk := rng.Intn(k)
			if err := a.del(dk); err == nil {
				delete(want, dk)
			}
		}
		if (k+1)%batch != 0 && k != cfg.Keys-1 {
			continue
		}
		if !bar.settle(a) {
			c15Unsettled(r, a, label)
			return
		}
		barriers++
		// ---- memory bounded
		if l, e := a.length(), st.EstimatedSize(); l > cfg.MaxSize || e > cfg.MaxSize {
			key := "memory-tier-over-maxsize"
			if cfg.FailPct > 0 {
				key += "/secondary-store-failing"
			}
			r.Violate(key, fmt.Sprintf("%s: after %d keys, with all writes applied and all hand-offs processed, the memory tier holds %d entries (EstimatedSize %d) > MaxSize %d", label, k+1, l, e, cfg.MaxSize),
				wit(map[string]any{"len": l, "estimated_size": e, "failed_secondary_sets": failedSets.Load()}))
			return
		}
		if cfg.FailPct > 0 {
			continue
		}
		// ---- every stored key retrievable without a loader run
		l0 := loads.Load()
		miss, stale, reloaded := 0, 0, 0
		var first string
		for pk, w := range want {
			v, ok, err := a.get(context.Background(), pk)
			ran := loads.Load() > l0
			l0 = loads.Load()
			switch {
			case err != nil:
				miss++
			case a.loading() && ran:
				reloaded++
				if first == "" {
					first = fmt.Sprintf("key %d (stored by %s, ttl %v) was reloaded instead of found; in secondary now: %v", pk, map[bool]string{true: "the loader", false: "Set"}[w.viaLoad], w.ttl, secHas(a, pk))
				}
				w.val = v // the reload is the latest value from now on
				w.viaLoad = true
			case !ok:
				miss++
				if first == "" {
					first = fmt.Sprintf("key %d (stored by Set, ttl %v) not found in either tier; in secondary now: %v", pk, w.ttl, secHas(a, pk))
				}
			case v != w.val:
				stale++
				if first == "" {
					first = fmt.Sprintf("key %d returned %#x, stored %#x", pk, v, w.val)
				}
			}
		}
		r.Count("retrievability_probes", int64(len(want)))
		if miss+reloaded > 0 {
			key := "evicted-entry-not-retrievable"
			switch {
			case reloaded > 0 && miss == 0:
				key += "/reloaded-instead"
			}
			key += "/ttls=" + cfg.TTLs
			r.Violate(key, fmt.Sprintf("%s: at barrier %d, %d of %d stored keys were not retrievable without the loader (%d missing, %d reloaded); first: %s", label, barriers, miss+reloaded, len(want), miss, reloaded, first),
				wit(map[string]any{"missing": miss, "reloaded": reloaded}))
			return
		}
		if stale > 0 {
			r.Violate("retrieved-wrong-value", fmt.Sprintf("%s: %d keys came back with a value other than the latest stored; first: %s", label, stale, first), wit(map[string]any{}))
			return
		}
		if !bar.settle(a) { // the probes promoted entries and caused further evictions
			c15Unsettled(r, a, label)
			return
		}
	}
	// ---- what the secondary store was given
	nsets := 0
	for _, c := range a.sec.log() {
		if c.Op != "set" {
			continue
		}
		nsets++
		if cfg.FailPct > 0 {
			continue
		}
		w := want[c.Key]
		if w == nil || c.Val != w.val {
			continue // an older incarnation or a deleted key
		}
		if c.Cost != 1 {
			r.Violate("secondary-set-wrong-cost", fmt.Sprintf("%s: the secondary store was given cost %d for key %d, stored with cost 1", label, c.Cost, c.Key), wit(map[string]any{}))
			return
		}
		if w.ttl == 0 && c.Expire != 0 {
			r.Violate("secondary-set-invented-deadline", fmt.Sprintf("%s: key %d was stored without TTL but demoted with deadline %d", label, c.Key, c.Expire), wit(map[string]any{}))
			return
		}
		if w.ttl != 0 && (c.Expire < w.tLo+int64(w.ttl) || c.Expire > w.tHi+int64(w.ttl)) {
			r.Violate("secondary-set-wrong-deadline", fmt.Sprintf("%s: key %d was stored with TTL %v between %d and %d but demoted with deadline %d", label, c.Key, w.ttl, w.tLo, w.tHi, c.Expire), wit(map[string]any{}))
			return
		}
	}
	if cfg.FailPct > 0 {
		if got := a.sec.asyncErrs.Load(); got != failedSets.Load() {
			r.Violate("error-handler-calls-differ-from-failures", fmt.Sprintf("%s: %d secondary Sets failed but the error handler was called %d times", label, failedSets.Load(), got), wit(map[string]any{}))
		}
		r.Count("failed_secondary_sets", failedSets.Load())
	}
	r.Count("barriers", int64(barriers))
	r.Count("secondary_sets_observed", int64(nsets))
	r.Count("loader_runs", loads.Load())
	if nsets > 0 {
		r.Distinct(fmt.Sprintf("%s/M%d/w%d/%s/fail%d/del=%v", cfg.Kind, cfg.MaxSize, cfg.Workers, cfg.TTLs, cfg.FailPct, cfg.Deletes))
	}
	if idx < 4 {
		r.Sample(6, wit(map[string]any{"barriers": barriers, "secondary_sets": nsets, "loader_runs": loads.Load()}))
	}
}

// c15Script follows ONE key through a PRNG-chosen life on a hybrid / hybrid-loading cache: stored by Set or by the
// loader, with or without TTL; forced out of memory (the package's own eviction event, hand-off awaited through
// H4); its deadline passing under virtual time while it lives in either tier; deleted; stored again. After every
// demotion of a live value the next Get must return that value without a loader run - also when the value now
// being demoted replaced an expired or deleted predecessor whose copy the secondary store may still have held.
func c15Script(r *Run, idx int) { lifeScript(r, idx, "C15") }

// lifeScript serves two properties with one scenario generator: for C15 the oracle is retrievability after a
// processed demotion; for C14 it is that no Get (answered from either tier, without the loader having run) returns a
// value whose deadline has passed, whose Delete has completed, or that a later Set has replaced. Each run reports
// only what belongs to its own property. For C14 the cached clock is, every other time, left un-refreshed when
// virtual time moves (lag below the 30 s the read path tolerates), and the cache's expiry sweep never runs by
// itself in virtual time - an expired entry stays in the map until something looks at it.
func lifeScript(r *Run, idx int, prop string) {
	rng := r.Rng(int64(15500 + idx))
	if prop == "C14" {
		rng = r.Rng(int64(14900 + idx))
	}
	if prop == "C03" { // C03 judges the same lives, but only what concerns deadlines
		rng = r.Rng(int64(13300 + idx))
	}
	judged := prop == "C14" || prop == "C03"
	kind := []string{"hybrid", "hybrid-loading"}[idx%2]
	bar := &secBarrier{}
	internal.VerifSetHook(bar.hook)
	defer internal.VerifSetHook(nil)
	defer r.Eval(1)
	var loads atomic.Int64
	var loadTTL atomic.Int64
	a, err := newAnyCache(kind, anyOpts{MaxSize: 50, KeepLog: true, Workers: 1 + rng.Intn(2), Prob: 1, ProbSet: true,
		Loader: func(ctx context.Context, k int) (theine.Loaded[int64], error) {
			n := loads.Add(1)
			return theine.Loaded[int64]{Value: 7_000_000 + n, Cost: 1, TTL: time.Duration(loadTTL.Load())}, nil
		}})
	if err != nil {
		r.Broken("build: %v", err)
		return
	}
	defer a.store().Close()
	st := a.store()
	k := 100 + rng.Intn(1000)
	var steps []string
	step := func(f string, x ...any) { steps = append(steps, fmt.Sprintf(f, x...)) }
	type live struct {
		val      int64
		deadline int64 // latest possible, 0 = none
		demoted  bool
		near     bool // virtual time has been moved to within a second of the deadline
	}
	var cur *live
	type dead struct {
		val int64
		why string
	}
	var gone []dead // values that must not be served any more, with the reason
	retire := func(why string) {
		if cur != nil {
			gone = append(gone, dead{cur.val, why})
		}
		cur = nil
	}
	seq := int64(0)
	pickTTL := func() time.Duration {
		if rng.Intn(5) < 2 {
			return 0
		}
		if judged {
			return time.Duration(3+rng.Intn(20)) * time.Second // so that an un-refreshed cached clock lags by < 30 s
		}
		return time.Duration(5+rng.Intn(200)) * time.Second
	}
	demotions, checked := 0, 0
	for i := 0; i < 20; i++ {
		// state-dependent choice, so that the long chains (store - demote - expire - store again - demote - Get) are common
		x := rng.Intn(100)
		switch {
		case cur == nil:
			x = []int{0, 30}[rng.Intn(2)] // Set | Get
		case !cur.demoted:
			x = []int{60, 60, 60, 60, 60, 60, 85, 0, 30, 95}[rng.Intn(10)] // mostly demote
		default:
			x = []int{30, 30, 30, 30, 85, 85, 85, 95, 0, 0}[rng.Intn(10)] // Get | expire | Delete | Set
		}
		switch {
		case x < 25: // store by Set
			ttl := pickTTL()
			seq++
			v := int64(idx)<<16 | seq
			if !a.set(k, v, 1, ttl) {
				step("Set(%d,%d,ttl %v) -> false", k, v, ttl)
				continue
			}
			retire("replaced by a later Set")
			cur = &live{val: v}
			if ttl > 0 {
				cur.deadline = st.VerifNowNano() + int64(ttl)
			}
			step("Set(%d,%d,ttl %v)", k, v, ttl)
		case x < 60: // Get
			ttl := pickTTL()
			loadTTL.Store(int64(ttl))
			l0 := loads.Load()
			v, ok, err := a.get(context.Background(), k)
			ran := loads.Load() > l0
			step("Get(%d) -> (%d,%v,err=%v) loader ran: %v", k, v, ok, err, ran)
			if err != nil {
				continue
			}
			if judged {
				checked++
				r.Count("life_script_gets_judged", 1)
				if ok && !ran && (cur == nil || v != cur.val) {
					why := "a value that was never stored"
					for _, g := range gone {
						if g.val == v {
							why = g.why
						}
					}
					key := map[string]string{"replaced by a later Set": "stale-read/get-after-overwrite", "its Delete completed": "stale-read/get-after-delete", "its deadline passed while it was in memory": "served-expired/from-memory-tier",
						"its deadline passed while it was in the secondary tier": "served-expired/from-secondary-tier"}[why]
					if key == "" {
						key = "non-linearizable/other"
					}
					if prop == "C03" && !strings.HasPrefix(key, "served-expired") {
						continue // not a deadline matter: C14's business
					}
					r.Violate(key+"/life-script/"+kind, fmt.Sprintf("life script %d (%s): Get returned %d although %s; steps: %v", idx, kind, v, why, steps),
						map[string]any{"script": idx, "cache": kind, "steps": steps, "secondary_log": tailLog(a.sec.log(), 12)})
					return
				}
				if cur != nil && ok && !ran {
					cur.demoted = false
				}
			}
			if prop == "C15" && cur != nil && cur.demoted && cur.deadline != 0 && st.VerifNowNano() >= cur.deadline {
				// real time has carried the cache's clock past the deadline meanwhile: nothing is owed any more
				r.Count("gets_after_a_demotion_not_judged_deadline_reached", 1)
				if !ran {
					retire("its deadline passed while it was in the secondary tier")
				}
			} else if prop == "C15" && cur != nil && cur.demoted {
				checked++
				if cur.near {
					r.Count("gets_after_a_demotion_within_a_second_of_the_deadline", 1)
				}
				r.Count("gets_after_a_demotion", 1)
				if ran || !ok || v != cur.val {
					key := "evicted-entry-not-retrievable"
					if ran {
						key += "/reloaded-instead"
					}
					key += "/after-a-predecessor-expired-or-was-deleted"
					_, inSec := a.sec.peek(k)
					r.Violate(key, fmt.Sprintf("script %d (%s): value %d was evicted from memory with the hand-off processed, yet the next Get returned (%d,%v), loader ran: %v; in secondary store now: %v; steps: %v", idx, kind, cur.val, v, ok, ran, inSec, steps),
						map[string]any{"script": idx, "cache": kind, "steps": steps, "secondary_log": tailLog(a.sec.log(), 12)})
					return
				}
				cur.demoted = false // promoted again
			}
			if ran {
				retire("replaced by a later load")
				cur = &live{val: v}
				if ttl > 0 {
					cur.deadline = st.VerifNowNano() + int64(ttl)
				}
			}
		case x < 80: // demote
			if cur == nil || cur.demoted {
				continue
			}
			a.wait()
			if !bar.demote(a, k) {
				step("forced eviction of %d did not settle", k)
				c15Unsettled(r, a, fmt.Sprintf("life script %d (%s), steps %v", idx, kind, steps))
				return
			}
			cur.demoted = true
			demotions++
			_, inSec := a.sec.peek(k)
			step("forced eviction of %d -> in secondary store: %v", k, inSec)
		case x < 92: // the deadline passes
			if cur == nil || cur.deadline == 0 {
				continue
			}
			if prop == "C15" && !cur.demoted && !cur.near && rng.Intn(2) == 0 {
				// ... or only comes close: the entry is still alive, with 150-850 ms to go, when it is evicted next. It is
				// owed to the secondary tier like any other live entry. (What follows is judged only while the cache's own
				// clock, read after the Get, still lies before the deadline.)
				left := time.Duration(150+rng.Intn(700)) * time.Millisecond
				if d := time.Duration(cur.deadline-st.VerifNowNano()) - left; d > 0 {
					a.wait()
					st.VerifShiftClock(d, true)
					if rng.Intn(2) == 0 {
						st.VerifRefreshClock()
					}
					cur.near = true
					step("virtual time +%v (%v of the entry's lifetime left)", d, left)
					if bar.demote(a, k) {
						cur.demoted = true
						demotions++
						_, inSec := a.sec.peek(k)
						step("forced eviction of %d -> in secondary store: %v", k, inSec)
						r.Count("demotions_within_a_second_of_the_deadline", 1)
					}
				}
				continue
			}
			d := time.Duration(cur.deadline-st.VerifNowNano()) + time.Second
			if d < time.Second {
				d = time.Second
			}
			a.wait()
			st.VerifRefreshClock()
			st.VerifShiftClock(d, true)
			lagging := judged && d < 29*time.Second && rng.Intn(2) == 0
			if !lagging {
				st.VerifRefreshClock()
			}
			step("virtual time +%v (deadline passed while in %s; cached clock refreshed: %v)", d, map[bool]string{true: "the secondary tier", false: "memory"}[cur.demoted], !lagging)
			retire(map[bool]string{true: "its deadline passed while it was in the secondary tier", false: "its deadline passed while it was in memory"}[cur.demoted])
		default:
			if err := a.del(k); err == nil {
				step("Delete(%d)", k)
				retire("its Delete completed")
			}
		}
	}
	r.Count("scripted_lives", 1)
	r.Count("scripted_demotions", int64(demotions))
	if checked > 0 {
		r.Distinct(fmt.Sprintf("script/%s/%d", kind, idx))
	}
	if idx < 2 {
		r.Sample(4, map[string]any{"script": idx, "cache": kind, "steps": steps})
	}
}

// c15OverwriteDuringHandoff: the hand-off worker is parked (hook H7) right after it has written the evicted
// entry to the secondary store and before it removes the entry from the map; the key is overwritten by a Set;
// the worker is released. Whatever the order in which the two finish, the value of the completed Set must then
// be retrievable (from either tier, without a loader run): the entry must not disappear from memory holding a
// value that was never written to the secondary tier.
func c15OverwriteDuringHandoff(r *Run, idx int) {
	kind := []string{"hybrid", "hybrid-loading"}[idx%2]
	bar := &secBarrier{}
	var armed atomic.Bool
	arrived, release := make(chan struct{}, 4), make(chan struct{}, 4)
	internal.VerifSetHook(func(id int) {
		bar.hook(id)
		if id == internal.VPSecWritten && armed.CompareAndSwap(true, false) {
			arrived <- struct{}{}
			<-release
		}
	})
	defer internal.VerifSetHook(nil)
	defer r.Eval(1)
	var loads atomic.Int64
	a, err := newAnyCache(kind, anyOpts{MaxSize: 50, KeepLog: true, Workers: 1, Prob: 1, ProbSet: true,
		Loader: func(ctx context.Context, k int) (theine.Loaded[int64], error) {
			return theine.Loaded[int64]{Value: 8_000_000 + loads.Add(1), Cost: 1}, nil
		}})
	if err != nil {
		r.Broken("build: %v", err)
		return
	}
	defer a.store().Close()
	st := a.store()
	k := 300 + idx
	v1, v2 := int64(idx)<<8|1, int64(idx)<<8|2
	a.set(k, v1, 1, 0)
	a.wait()
	armed.Store(true)
	if !st.VerifEvict(k) {
		r.Inconclusive(1)
		return
	}
	select {
	case <-arrived:
	case <-time.After(10 * time.Second):
		armed.Store(false)
		r.Inconclusive(1)
		return
	}
	setDone := make(chan bool, 1)
	go func() { setDone <- a.set(k, v2, 1, 0) }()
	early := false
	var setOK bool
	select {
	case setOK = <-setDone:
		early = true // the Set went through while the worker stood between its write and its removal
	case <-time.After(200 * time.Millisecond):
	}
	release <- struct{}{}
	if !early {
		select {
		case setOK = <-setDone:
		case <-time.After(20 * time.Second):
			r.Inconclusive(1)
			return
		}
	}
	if !bar.settle(a) {
		r.Inconclusive(1)
		return
	}
	r.Count("overwrites_during_a_handoff", 1)
	if early {
		r.Count("overwrites_that_completed_while_the_worker_was_parked", 1)
	}
	if !setOK {
		return // refused by the doorkeeper: nothing promised
	}
	l0 := loads.Load()
	v, ok, gerr := a.get(context.Background(), k)
	ran := loads.Load() > l0
	if gerr != nil || !ok || ran || v != v2 {
		key := "evicted-entry-not-retrievable"
		if ran {
			key += "/reloaded-instead"
		}
		if ok && !ran && v == v1 {
			key = "retrieved-wrong-value"
		}
		key += "/overwritten-between-its-write-back-and-its-removal"
		r.Violate(key, fmt.Sprintf("%s cache: key %d (value %d) was evicted; its hand-off worker was parked after writing it to the secondary store and before removing it from memory; Set(%d,%d) returned true (while the worker was parked: %v); worker released, all hand-offs processed; Get returned (%d,%v,err=%v), loader ran: %v; in secondary store now: %s",
			kind, k, v1, k, v2, early, v, ok, gerr, ran, secHas(a, k)), map[string]any{"cache": kind, "secondary_log": tailLog(a.sec.log(), 8)})
	}
	r.Distinct("overwrite-during-handoff/" + kind)
}

// c15UpdateOvertakesPromotion: a Get promotes a key from the secondary store; its policy event (which marks the
// entry "the secondary store holds this value") is delayed at hook H1, after the entry is in the map. A Set
// overwrites the key meanwhile - its own event reaches the policy first - and invalidates the secondary copy.
// Then the promotion's event arrives. When the entry is evicted afterwards, the overwritten value must be handed
// to the secondary store: that store no longer holds anything identical.
func c15UpdateOvertakesPromotion(r *Run, idx int) {
	kind := []string{"hybrid", "hybrid-loading"}[idx%2]
	bar := &secBarrier{}
	var target atomic.Int64
	parked, release := make(chan struct{}, 1), make(chan struct{}, 1)
	internal.VerifSetHook(func(id int) {
		bar.hook(id)
		if id == internal.VPBeforeEvent && target.Load() != 0 && goid() == target.Load() {
			target.Store(0)
			parked <- struct{}{}
			<-release
		}
	})
	defer internal.VerifSetHook(nil)
	defer r.Eval(1)
	var loads atomic.Int64
	a, err := newAnyCache(kind, anyOpts{MaxSize: 50, KeepLog: true, Workers: 1, Prob: 1, ProbSet: true,
		Loader: func(ctx context.Context, k int) (theine.Loaded[int64], error) {
			return theine.Loaded[int64]{Value: 8_500_000 + loads.Add(1), Cost: 1}, nil
		}})
	if err != nil {
		r.Broken("build: %v", err)
		return
	}
	defer a.store().Close()
	k := 700 + idx
	v1, v2 := int64(idx)<<8|1, int64(idx)<<8|2
	a.set(k, v1, 1, 0)
	a.wait()
	if !bar.demote(a, k) {
		r.Inconclusive(1)
		return
	}
	getDone := make(chan struct{})
	go func() {
		target.Store(goid())
		_, _, _ = a.get(context.Background(), k)
		close(getDone)
	}()
	select {
	case <-parked:
	case <-getDone: // answered without reaching the hook (e.g. the promotion did not happen)
		r.Inconclusive(1)
		return
	case <-time.After(10 * time.Second):
		target.Store(0)
		r.Inconclusive(1)
		return
	}
	okSet := a.set(k, v2, 1, 0)
	a.wait() // the Set's own event is applied while the promotion's event is still held back
	release <- struct{}{}
	<-getDone
	a.wait()
	if !okSet {
		return
	}
	if !bar.demote(a, k) {
		c15Unsettled(r, a, fmt.Sprintf("update-overtakes-promotion %d (%s)", idx, kind))
		return
	}
	r.Count("updates_overtaking_a_promotion", 1)
	l0 := loads.Load()
	v, ok, gerr := a.get(context.Background(), k)
	ran := loads.Load() > l0
	if gerr != nil || !ok || ran || v != v2 {
		key := "evicted-entry-not-retrievable"
		if ran {
			key += "/reloaded-instead"
		}
		if ok && !ran && v == v1 {
			key = "retrieved-wrong-value"
		}
		r.Violate(key+"/updated-between-promotion-and-its-policy-event", fmt.Sprintf("%s cache: key %d (value %d) was demoted; a Get promoted it and was held back just before sending its policy event; Set(%d,%d) returned true and its event was applied; the Get was released; the entry was then evicted with the hand-off processed; Get returned (%d,%v,err=%v), loader ran: %v; in secondary store now: %s",
			kind, k, v1, k, v2, v, ok, gerr, ran, secHas(a, k)), map[string]any{"cache": kind, "secondary_log": tailLog(a.sec.log(), 10)})
	}
	r.Distinct("update-overtakes-promotion/" + kind)
}

// c15EvictionOvertakesUpdate: a key is promoted from the secondary store (its entry is marked "the store holds this
// value"); a Set overwrites it in place and invalidates the store's copy, but the Set's policy event - which would
// clear the mark - is held back at hook H1; the entry is evicted meanwhile. The overwritten value must be handed to
// the secondary store all the same: nothing identical is held there.
func c15EvictionOvertakesUpdate(r *Run, idx int) {
	kind := []string{"hybrid", "hybrid-loading"}[idx%2]
	bar := &secBarrier{}
	var target atomic.Int64
	parked, release := make(chan struct{}, 1), make(chan struct{}, 1)
	internal.VerifSetHook(func(id int) {
		bar.hook(id)
		if id == internal.VPBeforeEvent && target.Load() != 0 && goid() == target.Load() {
			target.Store(0)
			parked <- struct{}{}
			<-release
		}
	})
	defer internal.VerifSetHook(nil)
	defer r.Eval(1)
	var loads atomic.Int64
	a, err := newAnyCache(kind, anyOpts{MaxSize: 50, KeepLog: true, Workers: 1, Prob: 1, ProbSet: true,
		Loader: func(ctx context.Context, k int) (theine.Loaded[int64], error) {
			return theine.Loaded[int64]{Value: 8_700_000 + loads.Add(1), Cost: 1}, nil
		}})
	if err != nil {
		r.Broken("build: %v", err)
		return
	}
	defer a.store().Close()
	st := a.store()
	k := 900 + idx
	v1, v2 := int64(idx)<<8|1, int64(idx)<<8|2
	a.set(k, v1, 1, 0)
	a.wait()
	if !bar.demote(a, k) {
		r.Inconclusive(1)
		return
	}
	if v, ok, _ := a.get(context.Background(), k); !ok || v != v1 { // promotion; its event is applied below
		r.Inconclusive(1)
		return
	}
	a.wait()
	setDone := make(chan bool, 1)
	go func() {
		target.Store(goid())
		setDone <- a.set(k, v2, 1, 0)
	}()
	select {
	case <-parked:
	case ok := <-setDone:
		_ = ok
		r.Inconclusive(1)
		return
	case <-time.After(10 * time.Second):
		target.Store(0)
		r.Inconclusive(1)
		return
	}
	// the Set has replaced the value in the map and invalidated the secondary copy; its event is still held back
	evicted := st.VerifEvict(k)
	a.wait()
	release <- struct{}{}
	okSet := <-setDone
	if !bar.settle(a) {
		c15Unsettled(r, a, fmt.Sprintf("eviction-overtakes-update %d (%s)", idx, kind))
		return
	}
	if !okSet || !evicted {
		return
	}
	r.Count("evictions_overtaking_an_update", 1)
	if st.VerifResident(k) {
		if !bar.demote(a, k) { // still resident (the eviction found nothing to do): evict now
			r.Inconclusive(1)
			return
		}
	}
	l0 := loads.Load()
	v, ok, gerr := a.get(context.Background(), k)
	ran := loads.Load() > l0
	if gerr != nil || !ok || ran || v != v2 {
		key := "evicted-entry-not-retrievable"
		if ran {
			key += "/reloaded-instead"
		}
		if ok && !ran && v == v1 {
			key = "retrieved-wrong-value"
		}
		r.Violate(key+"/evicted-between-an-in-place-update-and-its-policy-event", fmt.Sprintf("%s cache: key %d (value %d) was demoted and promoted again; Set(%d,%d) replaced the value and invalidated the secondary copy, its policy event was held back; the entry was evicted; the Set was released and returned true; all hand-offs processed; Get returned (%d,%v,err=%v), loader ran: %v; in secondary store now: %s",
			kind, k, v1, k, v2, v, ok, gerr, ran, secHas(a, k)), map[string]any{"cache": kind, "secondary_log": tailLog(a.sec.log(), 10)})
	}
	r.Distinct("eviction-overtakes-update/" + kind)
}

// c15PooledReuse: with the entry pool on, entry objects go back to the pool when they leave memory and are handed out
// again for other keys. Keys are demoted, promoted again and evicted (their entries return to the pool carrying
// whatever marks they had); then fresh keys are stored - drawing recycled entries - and evicted: each must be found
// in the secondary store afterwards. Sequential, so no event can overtake another.
func c15PooledReuse(r *Run, idx int) {
	kind := []string{"hybrid", "hybrid-loading"}[idx%2]
	bar := &secBarrier{}
	internal.VerifSetHook(bar.hook)
	defer internal.VerifSetHook(nil)
	defer r.Eval(1)
	defer r.Case(fmt.Sprintf("pooled-reuse %d kind=%s pool=true", idx, kind))()
	var loads atomic.Int64
	a, err := newAnyCache(kind, anyOpts{MaxSize: 200, KeepLog: true, Workers: 1, Prob: 1, ProbSet: true, Pool: true,
		Loader: func(ctx context.Context, k int) (theine.Loaded[int64], error) {
			return theine.Loaded[int64]{Value: 8_900_000 + loads.Add(1), Cost: 1}, nil
		}})
	if err != nil {
		r.Broken("build: %v", err)
		return
	}
	defer a.store().Close()
	const n = 40
	for k := 0; k < n; k++ { // first lives: stored, demoted, promoted (marked clean), evicted again
		a.set(k, int64(k)+1, 1, 0)
	}
	a.wait()
	for k := 0; k < n; k++ {
		if !bar.demote(a, k) {
			r.Inconclusive(1)
			return
		}
	}
	for k := 0; k < n; k++ {
		_, _, _ = a.get(context.Background(), k)
	}
	a.wait()
	for k := 0; k < n; k++ {
		if !bar.demote(a, k) {
			r.Inconclusive(1)
			return
		}
	}
	lost, first := 0, ""
	for k := 1000; k < 1000+n; k++ { // second lives: fresh keys in recycled entries
		v := int64(k)<<8 | 9
		if !a.set(k, v, 1, 0) {
			continue
		}
		a.wait()
		if !bar.demote(a, k) {
			r.Inconclusive(1)
			return
		}
		l0 := loads.Load()
		got, ok, gerr := a.get(context.Background(), k)
		if gerr != nil || !ok || loads.Load() > l0 || got != v {
			lost++
			if first == "" {
				first = fmt.Sprintf("key %d (value %d): Get after its demotion returned (%d,%v,err=%v), loader ran: %v, in secondary store: %s", k, v, got, ok, gerr, loads.Load() > l0, secHas(a, k))
			}
		}
	}
	if lost > 0 {
		r.Violate("evicted-entry-not-retrievable/entry-pool/fresh-key-in-a-recycled-entry", fmt.Sprintf("%s cache with the entry pool on: %d keys were demoted, promoted and evicted again; then %d fresh keys were stored and evicted with the hand-off processed: %d of them were not retrievable (first: %s)", kind, n, n, lost, first),
			map[string]any{"cache": kind, "lost": lost})
	}
	r.Count("pooled_reuse_rounds", 1)
	r.Distinct("pooled-reuse/" + kind)
}

// c15RestoredCleanMark: entries that were promoted from the saving cache's secondary store (and therefore carry the
// mark "the secondary store holds this value") are saved and loaded into another hybrid cache, whose own secondary
// store has never seen them. When that cache evicts them they must reach ITS secondary store: the mark describes
// the saving cache's store, not the receiving one's. Sequential; barrier = hooks H4.
func c15RestoredCleanMark(r *Run, idx int) {
	kind := []string{"hybrid", "hybrid-loading"}[idx%2]
	withTTL := idx%4 >= 2
	bar := &secBarrier{}
	internal.VerifSetHook(bar.hook)
	defer internal.VerifSetHook(nil)
	defer r.Eval(1)
	var loads atomic.Int64
	mk := func() (*anyCache, error) {
		return newAnyCache(kind, anyOpts{MaxSize: 200, KeepLog: true, Workers: 1, Prob: 1, ProbSet: true,
			Loader: func(ctx context.Context, k int) (theine.Loaded[int64], error) {
				return theine.Loaded[int64]{Value: 7_700_000 + loads.Add(1), Cost: 1}, nil
			}})
	}
	a, err := mk()
	if err != nil {
		r.Broken("build: %v", err)
		return
	}
	const n = 30
	val := func(k int) int64 { return int64(k)<<8 | 5 }
	var ttl time.Duration
	if withTTL {
		ttl = time.Hour
	}
	for k := 0; k < n; k++ {
		a.set(k, val(k), 1, ttl)
	}
	a.wait()
	for k := 0; k < n; k += 2 { // every other key: demoted, then promoted again by a Get (marked clean)
		if !bar.demote(a, k) {
			r.Inconclusive(1)
			a.store().Close()
			return
		}
	}
	promoted := 0
	for k := 0; k < n; k += 2 {
		if v, ok, gerr := a.get(context.Background(), k); gerr == nil && ok && v == val(k) {
			promoted++
		}
	}
	a.wait()
	var buf bytes.Buffer
	if err := a.save(1, &buf); err != nil {
		r.Broken("save: %v", err)
		a.store().Close()
		return
	}
	a.closeAPI()
	a.store().Close()
	b, err := mk()
	if err != nil {
		r.Broken("build: %v", err)
		return
	}
	defer b.store().Close()
	if err := b.load(1, &buf); err != nil {
		r.Broken("load: %v", err)
		return
	}
	restored := 0
	for k := 0; k < n; k++ {
		if b.store().VerifResident(k) {
			restored++
		}
	}
	lost, first := 0, ""
	for k := 0; k < n; k++ {
		if !b.store().VerifResident(k) {
			continue
		}
		if !bar.demote(b, k) {
			r.Inconclusive(1)
			return
		}
		l0 := loads.Load()
		got, ok, gerr := b.get(context.Background(), k)
		if gerr != nil || !ok || loads.Load() > l0 || got != val(k) {
			lost++
			if first == "" {
				first = fmt.Sprintf("key %d (value %d, promoted in the saving cache: %v): Get after its demotion from the receiving cache returned (%d,%v,err=%v), loader ran: %v, in the receiving cache's secondary store: %s", k, val(k), k%2 == 0, got, ok, gerr, loads.Load() > l0, secHas(b, k))
			}
		}
	}
	if lost > 0 {
		r.Violate("evicted-entry-not-retrievable/restored-by-loadcache/promoted-in-the-saving-cache", fmt.Sprintf("%s cache A: %d keys stored, every other one demoted and promoted again (%d promotions); saved, loaded into a fresh %s cache B with a secondary store of its own (%d entries restored); each restored key then evicted from B with the hand-off processed: %d were in neither tier of B afterwards (first: %s)", kind, n, promoted, kind, restored, lost, first),
			map[string]any{"cache": kind, "lost": lost, "restored": restored, "with_ttl": withTTL})
	}
	if promoted > 0 && restored > 0 {
		r.Count("restored_clean_mark_rounds", 1)
		r.Count("entries_promoted_then_saved_and_restored", int64(imin(promoted, restored)))
		r.Distinct(fmt.Sprintf("restored-clean-mark/%s/ttl=%v", kind, withTTL))
	} else {
		r.Inconclusive(1)
	}
}

// c15SlowInvalidation: a Set that overwrites a resident key also removes the key's older copy from the secondary
// store. Here that removal is slow (held inside the store's Delete) while the key is forced out of memory: whichever
// of the two finishes first, the value of the Set - which returns true - must be in one of the tiers afterwards.
// Every wait only paces the script and is bounded; the verdict is the Get after everything has settled.
func c15SlowInvalidation(r *Run, idx int) {
	kind := []string{"hybrid", "hybrid-loading"}[idx%2]
	bar := &secBarrier{}
	internal.VerifSetHook(bar.hook)
	defer internal.VerifSetHook(nil)
	defer r.Eval(1)
	var loads atomic.Int64
	a, err := newAnyCache(kind, anyOpts{MaxSize: 200, KeepLog: true, Workers: 1, Prob: 1, ProbSet: true,
		Loader: func(ctx context.Context, k int) (theine.Loaded[int64], error) {
			return theine.Loaded[int64]{Value: 9_000_000 + loads.Add(1), Cost: 1}, nil
		}})
	if err != nil {
		r.Broken("build: %v", err)
		return
	}
	defer a.store().Close()
	k := 300 + idx
	v1, v2 := int64(k)<<8|1, int64(k)<<8|2
	var ttl time.Duration
	if idx%4 >= 2 {
		ttl = time.Hour
	}
	a.set(k, v1, 1, ttl)
	if idx%3 == 0 { // the older value has a copy in the secondary store: demoted and promoted again
		a.wait()
		if !bar.demote(a, k) {
			r.Inconclusive(1)
			return
		}
		_, _, _ = a.get(context.Background(), k)
	}
	a.wait()
	gate := make(chan struct{})
	a.sec.mu.Lock()
	a.sec.delGate = gate
	a.sec.mu.Unlock()
	setDone, evDone := make(chan struct{}), make(chan struct{})
	go func() { a.set(k, v2, 1, ttl); close(setDone) }()
	for i := 0; i < 20000 && a.sec.inDel.Load() == 0; i++ {
		time.Sleep(50 * time.Microsecond)
	}
	inside := a.sec.inDel.Load() > 0
	e0 := bar.enq.Load()
	go func() { a.store().VerifEvict(k); close(evDone) }()
	handedOff := false
	for i := 0; i < 600 && !handedOff; i++ { // up to 30 ms
		time.Sleep(50 * time.Microsecond)
		handedOff = bar.enq.Load() > e0 && bar.enq.Load() == bar.done.Load()
	}
	a.sec.mu.Lock()
	a.sec.delGate = nil
	a.sec.mu.Unlock()
	close(gate)
	<-setDone
	<-evDone
	if !bar.settle(a) {
		c15Unsettled(r, a, "slow-invalidation script")
		return
	}
	l0 := loads.Load()
	got, ok, gerr := a.get(context.Background(), k)
	if gerr != nil || !ok || loads.Load() > l0 || got != v2 {
		r.Violate("evicted-entry-not-retrievable/overwritten-while-its-invalidation-of-the-secondary-copy-was-slow", fmt.Sprintf("%s cache: Set(%d, %d) resident; Set(%d, %d) held inside the secondary store's Delete (reached: %v) while the key was forced out of memory (hand-off completed during the hold: %v); after release and barrier Get returned (%d,%v,err=%v), loader ran: %v, in secondary store: %s - the Set had returned true", kind, k, v1, k, v2, inside, handedOff, got, ok, gerr, loads.Load() > l0, secHas(a, k)),
			map[string]any{"cache": kind, "secondary_log": tailLog(a.sec.log(), 10)})
	}
	if inside {
		r.Count("overwrites_with_a_held_invalidation", 1)
		if handedOff {
			r.Count("handoffs_completed_while_the_invalidation_was_held", 1)
		}
		r.Distinct(fmt.Sprintf("slow-invalidation/%s/ttl=%v/copy=%v", kind, ttl > 0, idx%3 == 0))
	} else {
		r.Inconclusive(1)
	}
}

// c15Unsettled is called when the hand-off barrier never settles (writes applied, yet enqueued != processed after
// the generous bound). That alone is inconclusive - unless the goroutine dump shows why: the cache is open and fewer
// hand-off workers exist than it was built with (workers of caches closed earlier can only add to the count, never
// lower it), so what is waiting in the queue will never be written.
func c15Unsettled(r *Run, a *anyCache, label string) {
	_, all := dumpPair(100 * time.Millisecond)
	n := 0
	for _, g := range all {
		if g.has(").processSecondary(") {
			n++
		}
	}
	if !dumpBlind.Load() && n < a.workers {
		r.Violate("handoff-never-processed/worker-goroutine-exited", fmt.Sprintf("%s: the hand-off barrier never settled (%d entries waiting in the hand-off queue, cache open) and only %d of the %d hand-off workers the cache was built with still exist", label, a.store().VerifSecQueueLen(), n, a.workers),
			map[string]any{"workers_configured": a.workers, "workers_alive": n, "handoff_queue_len": a.store().VerifSecQueueLen()})
		return
	}
	r.Inconclusive(1)
}

func secHas(a *anyCache, k int) string {
	if rec, ok := a.sec.peek(k); ok {
		return fmt.Sprintf("yes (value %#x, expire %d)", rec.Val, rec.Expire)
	}
	return "no"
}

func runC15(r *Run) {
	r.Rule("case = one round on a hybrid / hybrid-loading cache with admission probability 1: 3-6 x MaxSize keys stored by Set and by the loader, with / without TTL, optional Deletes, paced so that the hand-off queue never overflows (barrier = all events applied and hooks H4 enqueued == processed); at each barrier every stored key must be retrievable with its latest value without a loader run and the memory tier must hold <= MaxSize; every third round the secondary store fails 20/50/100% of its Sets (error-handler count, bounded memory); or one scripted life of a single key (stored by Set / loader, TTL or not, forced out of memory, deadline passing under virtual time in either tier, deleted, stored again) in which every Get after a processed demotion must return the demoted value without a loader run. Non-trivial = a round in which the secondary store received at least one Set; distinct by configuration")
	r.Assume("workers are given time to keep up (the property's own condition): the round waits for the hand-off hooks between batches",
		"secondary-store failures are injected on Set only, so that retrievability of what is already there is not in question in failing rounds")
	n := r.Pick(48, 2400)
	for i := 0; i < n; i++ {
		if i%r.NShards == r.Shard {
			c15Round(r, i)
		}
	}
	ns := r.Pick(400, 20000)
	for i := 0; i < ns; i++ {
		if i%r.NShards == r.Shard {
			c15Script(r, i)
		}
	}
	no := r.Pick(16, 200)
	for i := 0; i < no; i++ {
		if i%r.NShards == r.Shard {
			c15OverwriteDuringHandoff(r, i)
			c15UpdateOvertakesPromotion(r, i)
			c15EvictionOvertakesUpdate(r, i)
			c15PooledReuse(r, i)
			c15RestoredCleanMark(r, i)
			c15SlowInvalidation(r, i)
		}
	}
}
