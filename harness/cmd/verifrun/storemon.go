package main

import (
	"fmt"
	"sort"
	"sync"
	"time"

	theine "github.com/Yiling-J/theine-go"
	"github.com/Yiling-J/theine-go/internal"
)

// Shared pieces for the cache-level monitors: quiescent-state invariant
// checker (C02, C05, C11, C20), listener log, goroutine parking on hooks.

// ---------------------------------------------------------------- invariants

type invIssue struct {
	Key  string
	What string
}

func snapSummary[K comparable, V any](sn internal.VerifSnapshot[K, V]) map[string]any {
	ents := func(es []internal.VerifEntry[K, V]) []string {
		var out []string
		for i, e := range es {
			if i >= 40 {
				out = append(out, "…")
				break
			}
			out = append(out, fmt.Sprintf("%v(w=%d,pw=%d,exp=%d,flags=%#x)", e.Key, e.Weight, e.PolicyWeight, e.Expire, uint8(e.Flags)))
		}
		return out
	}
	return map[string]any{
		"map": ents(sn.Map), "window": ents(sn.Window.Entries), "probation": ents(sn.Probation.Entries), "protected": ents(sn.Protected.Entries),
		"window_len": sn.Window.Len, "probation_len": sn.Probation.Len, "protected_len": sn.Protected.Len,
		"weighted_size": sn.WeightedSize, "capacity": sn.Capacity, "queue_len": sn.QueueLen, "wheel_entries": len(sn.Wheel),
	}
}

// checkQuiescent decides the "after drain" half of C02 on a snapshot taken
// with no operation in flight and all pending writes applied.
func checkQuiescent[K comparable, V any](sn internal.VerifSnapshot[K, V], estimated int, exactAccounting bool) []invIssue {
	var out []invIssue
	add := func(k, f string, a ...any) { out = append(out, invIssue{k, fmt.Sprintf(f, a...)}) }
	inMap := map[uintptr]internal.VerifEntry[K, V]{}
	var mapCost int64
	for _, e := range sn.Map {
		inMap[e.Ptr] = e
		mapCost += e.Weight
	}
	inList := map[uintptr]int{}
	lists := []struct {
		name string
		l    internal.VerifListState[K, V]
	}{{"window", sn.Window}, {"probation", sn.Probation}, {"protected", sn.Protected}}
	var listSum int64
	for li, L := range lists {
		var sum int64
		for _, e := range L.l.Entries {
			if prev, dup := inList[e.Ptr]; dup {
				add("entry-listed-twice", "entry %v is linked in %s and in %s", e.Key, lists[prev].name, L.name)
			}
			inList[e.Ptr] = li
			sum += e.PolicyWeight
			if regionOf(e.Flags) != li {
				add("region-flag-mismatch", "entry %v linked in %s has flags %#x", e.Key, L.name, uint8(e.Flags))
			}
			if _, ok := inMap[e.Ptr]; !ok {
				add("ghost-in-policy", "entry %v (policy weight %d) is tracked by the policy (%s) but is not resident in the map", e.Key, e.PolicyWeight, L.name)
			}
		}
		if sum != L.l.Len {
			add("region-size-mismatch", "%s records %d but its entries sum to %d", L.name, L.l.Len, sum)
		}
		if len(L.l.Entries) != L.l.Count {
			add("region-count-mismatch", "%s records count %d but holds %d", L.name, L.l.Count, len(L.l.Entries))
		}
		if !L.l.BackwardOK {
			add("list-links-broken", "%s backward walk disagrees", L.name)
		}
		listSum += L.l.Len
	}
	for p, e := range inMap {
		if _, ok := inList[p]; !ok {
			add("resident-untracked", "resident entry %v (cost %d, flags %#x) is not known to the eviction policy and can never be evicted", e.Key, e.Weight, uint8(e.Flags))
			continue
		}
		if exactAccounting && e.PolicyWeight != e.Weight {
			add("policy-cost-stale", "resident entry %v has cost %d but the policy accounts %d for it", e.Key, e.Weight, e.PolicyWeight)
		}
		if e.Flags&(internal.VerifFlagRemoved|internal.VerifFlagDeleted) != 0 {
			add("resident-flagged-removed", "resident entry %v carries removed/deleted flag %#x: later events for it are ignored", e.Key, uint8(e.Flags))
		}
	}
	if listSum != int64(sn.WeightedSize) {
		add("policy-total-mismatch", "regions sum to %d, policy total %d", listSum, sn.WeightedSize)
	}
	if estimated >= 0 && int64(estimated) != listSum {
		add("estimated-size-mismatch", "EstimatedSize()=%d but regions sum to %d", estimated, listSum)
	}
	if exactAccounting && mapCost != listSum {
		add("resident-cost-vs-policy", "resident entries cost %d in total, the policy accounts %d", mapCost, listSum)
	}
	if mapCost > int64(sn.Capacity) {
		add("resident-cost-over-maxsize", "resident entries cost %d in total > MaxSize %d after writes drained", mapCost, sn.Capacity)
	}
	if int64(sn.WeightedSize) > int64(sn.Capacity) {
		add("policy-total-over-maxsize", "policy total %d > MaxSize %d after writes drained", sn.WeightedSize, sn.Capacity)
	}
	// timer wheel: every resident entry with a deadline is scheduled, nothing else is
	inWheel := map[uintptr]bool{}
	for _, e := range sn.Wheel {
		inWheel[e.Ptr] = true
		if _, ok := inMap[e.Ptr]; !ok {
			add("ghost-in-wheel", "entry %v is scheduled in the timer wheel but not resident", e.Key)
		}
	}
	for p, e := range inMap {
		if e.Expire != 0 && !inWheel[p] && inList[p] >= 0 {
			if _, tracked := inList[p]; tracked {
				add("deadline-not-scheduled", "resident entry %v has deadline %d but is not in the timer wheel: it will never be reclaimed by maintenance", e.Key, e.Expire)
			}
		}
	}
	sort.Slice(out, func(i, j int) bool { return out[i].Key < out[j].Key })
	return out
}

// ---------------------------------------------------------------- listener log

type note[K comparable, V any] struct {
	Key    K
	Val    V
	Reason theine.RemoveReason
	Ts     int64 // logical clock
}

type noteLog[K comparable, V any] struct {
	mu    sync.Mutex
	notes []note[K, V]
	gate  chan struct{} // when non-nil the listener blocks on it (stalls maintenance)
}

func (l *noteLog[K, V]) listener() func(K, V, theine.RemoveReason) {
	return func(k K, v V, r theine.RemoveReason) {
		l.mu.Lock()
		l.notes = append(l.notes, note[K, V]{k, v, r, tick()})
		g := l.gate
		l.mu.Unlock()
		if g != nil {
			<-g
		}
	}
}

func (l *noteLog[K, V]) snapshot() []note[K, V] {
	l.mu.Lock()
	defer l.mu.Unlock()
	return append([]note[K, V](nil), l.notes...)
}

func reasonName(r theine.RemoveReason) string {
	switch r {
	case theine.REMOVED:
		return "REMOVED"
	case theine.EVICTED:
		return "EVICTED"
	case theine.EXPIRED:
		return "EXPIRED"
	}
	return fmt.Sprintf("reason(%d)", r)
}

// ---------------------------------------------------------------- hook parking

// parker lets the harness park chosen goroutines at a hook point and release
// them one by one. Only one parker may be installed at a time (the hook is
// process-wide), so scenarios using it run serially.
type parker struct {
	mu     sync.Mutex
	points map[int]bool
	ctl    map[int64]*parked // goroutine id -> control block
	anyCtl *parked           // when set, goroutines the harness did not start (maintenance, ticker) park here
}

// parkAnyone makes every unregistered goroutine that reaches a point park on the returned control block.
func (p *parker) parkAnyone() *parked {
	c := &parked{arrived: make(chan int, 64), release: make(chan struct{}, 64), name: "any"}
	p.mu.Lock()
	p.anyCtl = c
	p.mu.Unlock()
	return c
}

func (p *parker) parkNoone() {
	p.mu.Lock()
	p.anyCtl = nil
	p.mu.Unlock()
}

type parked struct {
	arrived chan int // hook id, sent when the goroutine reaches a point
	release chan struct{}
	name    string
}

func newParker(points ...int) *parker {
	p := &parker{points: map[int]bool{}, ctl: map[int64]*parked{}}
	for _, id := range points {
		p.points[id] = true
	}
	internal.VerifSetHook(p.hook)
	return p
}

func (p *parker) close() { internal.VerifSetHook(nil) }

func (p *parker) hook(id int) {
	if !p.points[id] {
		return
	}
	g := goid()
	p.mu.Lock()
	c := p.ctl[g]
	p.mu.Unlock()
	if c == nil {
		p.mu.Lock()
		c = p.anyCtl
		p.mu.Unlock()
		if c == nil {
			return
		}
	}
	c.arrived <- id
	<-c.release
}

// goParked starts f on a new goroutine that parks at the parker's points.
// Returns the control block and a channel closed when f returns.
func (p *parker) goParked(name string, f func()) (*parked, chan struct{}) {
	c := &parked{arrived: make(chan int, 64), release: make(chan struct{}, 64), name: name}
	done := make(chan struct{})
	started := make(chan struct{})
	go func() {
		g := goid()
		p.mu.Lock()
		p.ctl[g] = c
		p.mu.Unlock()
		close(started)
		defer func() {
			p.mu.Lock()
			delete(p.ctl, g)
			p.mu.Unlock()
			close(done)
		}()
		f()
	}()
	<-started
	return c, done
}

// waitParkedOrDone waits until the goroutine reaches a point (returns id,true)
// or finishes (0,false). The generous timeout only guards the harness itself.
func waitParkedOrDone(c *parked, done chan struct{}) (int, bool, error) {
	select {
	case id := <-c.arrived:
		return id, true, nil
	case <-done:
		return 0, false, nil
	case <-time.After(60 * time.Second):
		return 0, false, fmt.Errorf("goroutine %s neither parked nor finished within 60 s", c.name)
	}
}
