module github.com/Yiling-J/theine-go/verifharness

go 1.20

require (
	github.com/Yiling-J/theine-go v0.0.0
	github.com/anishathalye/porcupine v1.3.0
)

require (
	github.com/davecgh/go-spew v1.1.1 // indirect
	github.com/klauspost/cpuid/v2 v2.0.9 // indirect
	github.com/pmezard/go-difflib v1.0.0 // indirect
	github.com/stretchr/testify v1.8.2 // indirect
	github.com/zeebo/xxh3 v1.0.2 // indirect
	golang.org/x/sys v0.8.0 // indirect
	gopkg.in/yaml.v3 v3.0.1 // indirect
)

replace github.com/Yiling-J/theine-go => /repo
