# property table consumed by gen_manifest.py
NOT_APPLICABLE = {}

chk("C17",
    "The real CountMinSketch is driven through generated Add/Addn/Estimate/EnsureCapacity sequences (adversarial and random hashes, tables 16..2^18 quick / 2^24 thorough) while an exact reference count and a table copy around every reset decide the lower bound, the exact halving, reset periodicity, bounds (panic) and no-shrink. Sampling of an unbounded input space: held on the executions observed.",
    "Trusts Go's bounds checks to expose out-of-range table accesses and the harness's exact reference counter; table sizes above 2^24 not exercised.",
    "reference-model monitor + invariant assertions on the live sketch")

chk("C07",
    "A real TinyLfu is driven directly with generated insert/access/cost-update/remove/forced-climb/sketch-fill steps (capacities 1..1000, costs 1..capacity, arbitrary sample counts and sketch contents); an invariant walker checks region membership, sizes, counts, totals, capacity bounds and conservation after every single step, and a progress watchdog reports non-termination. Sampled sequences, not exhaustive.",
    "Policy is driven the way sinkWrite drives it, single-threaded; the walker trusts the white-box snapshot accessor.",
    "structural-invariant walker at every step + progress watchdog")
