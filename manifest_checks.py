# property table consumed by gen_manifest.py
NOT_APPLICABLE = {}

chk("C17",
    "The real CountMinSketch is driven through generated Add/Addn/Estimate/EnsureCapacity sequences (adversarial and random hashes, tables 16..2^18 quick / 2^24 thorough) while an exact reference count and a table copy around every reset decide the lower bound, the exact halving, reset periodicity, bounds (panic) and no-shrink. Sampling of an unbounded input space: held on the executions observed.",
    "Trusts Go's bounds checks to expose out-of-range table accesses and the harness's exact reference counter; table sizes above 2^24 not exercised.",
    "reference-model monitor + invariant assertions on the live sketch")

chk("C07",
    "A real TinyLfu is driven directly with generated insert/access/cost-update/remove/forced-climb/sketch-fill steps (capacities 1..1000, costs 1..capacity, arbitrary sample counts and sketch contents); an invariant walker checks region membership, sizes, counts, totals, capacity bounds and conservation after every single step, and a progress watchdog reports non-termination. Sampled sequences, not exhaustive.",
    "Policy is driven the way sinkWrite drives it, single-threaded; the walker trusts the white-box snapshot accessor.",
    "structural-invariant walker at every step + progress watchdog")

chk("C04",
    "The real TimerWheel is driven with explicit times (start times 0..2^50, per-second / irregular / longer-than-rotation advances, schedule / re-schedule in both directions incl. into the past / remove, deadlines adjacent to every level's slot boundaries and wrap-arounds) against a deadline model: never early, gone after the first advance >= deadline + one finest tick, only the newest deadline counts, slot lists well-formed. The same bounds are checked at cache level from EXPIRED notifications under virtual time with harness-run ticks, including a TTL update whose event is delayed past a tick (hook H1). Sampled; thorough adds per-second stepping over 7 virtual days.",
    "Lateness is measured against 'first advance at T >= deadline + 2^30 ns'; virtual time is produced by shifting the clock origin while no client call is in flight.",
    "deadline-model monitor over the live timer wheel (explicit time) + notification log under virtual time")
