# property table consumed by gen_manifest.py
NOT_APPLICABLE = {}

chk("C17",
    "The real CountMinSketch is driven through generated Add/Addn/Estimate/EnsureCapacity sequences (adversarial and random hashes, tables 16..2^18 quick / 2^24 thorough) while an exact reference count and a table copy around every reset decide the lower bound, the exact halving, reset periodicity, bounds (panic) and no-shrink. Sampling of an unbounded input space: held on the executions observed.",
    "Trusts Go's bounds checks to expose out-of-range table accesses and the harness's exact reference counter; table sizes above 2^24 not exercised.",
    "reference-model monitor + invariant assertions on the live sketch")

chk("C07",
    "A real TinyLfu is driven directly with generated insert/access/cost-update/remove/forced-climb/sketch-fill steps (capacities 1..1000, costs 1..capacity, arbitrary sample counts and sketch contents); an invariant walker checks region membership, sizes, counts, totals, capacity bounds and conservation after every single step, and a progress watchdog reports non-termination. Sampled sequences, not exhaustive.",
    "Policy is driven the way sinkWrite drives it, single-threaded; the walker trusts the white-box snapshot accessor.",
    "structural-invariant walker at every step + progress watchdog")

chk("C04",
    "The real TimerWheel is driven with explicit times (start times 0..2^50, per-second / irregular / longer-than-rotation advances, schedule / re-schedule in both directions incl. into the past / remove, deadlines adjacent to every level's slot boundaries and wrap-arounds) against a deadline model: never early, gone after the first advance >= deadline + one finest tick, only the newest deadline counts, slot lists well-formed. The same bounds are checked at cache level from EXPIRED notifications under virtual time with harness-run ticks, including a TTL update whose event is delayed past a tick (hook H1). Sampled; thorough adds per-second stepping over 7 virtual days.",
    "Lateness is measured against 'first advance at T >= deadline + 2^30 ns'; virtual time is produced by shifting the clock origin while no client call is in flight.",
    "deadline-model monitor over the live timer wheel (explicit time) + notification log under virtual time")

chk("C02",
    "Quiescent-state invariant walker (resident cost <= MaxSize = policy total = EstimatedSize, map/policy bijection, per-entry cost, flags, wheel membership) over white-box snapshots taken after Wait, driven by (a) concurrent stress with delays at hook H1 and virtual-time jumps, (b) a phase scheduler that parks every scripted op after its map phase and releases the event sends in chosen orders with tick / time-jump / read-burst between (thorough: all 4-op scripts over a 5-op alphabet x all 24 release orders x 3 placements), (c) the expiry path parked at its deadline re-check (hook H2) while the TTL is extended, on both the wheel and the insert path, (d) stalled maintenance with up to 100 writers parked on the full queue for the in-flight bound.",
    "Entry pool off. Snapshots are taken under the policy lock and all shard read locks; the scheduler controls arrival order, not the scheduling inside one event's processing.",
    "invariant walker at quiescent points + hook-driven phase scheduler")

chk("C05",
    "Ledger over the removal-listener log with unique values: owner-mode concurrent rounds (each key written by one goroutine, pool on/off, TTLs under virtual time, MaxSize 1..1000, 2..32 clients, H1 delays) decide exactly-once / true-reason / not-resident / never-phantom per value; deterministic delete-vs-eviction overlaps and the C02 phase-scheduler scripts are replayed with an exact script ledger.",
    "Owner mode fixes the per-key write order to program order; the shared pipeline stays fully concurrent. A value still resident at the end owes no notification.",
    "ledger / conservation checker over the recorded notification log")

chk("C01",
    "Concurrent histories (4-16 clients x 150-400 ops over 3-12 keys, unique values, TTLs of 1us-5ms, Range visits, loader-backed Gets split into leader=write / follower=read) are recorded at the client boundary with a logical clock and checked per key with porcupine against a sequential map model in which a miss is always legal but a value seen gone may never return. Configurations plain / doorkeeper / entry pool / loading / loading+doorkeeper / loading+pool x MaxSize 1..1000, GOMAXPROCS 2..16, delays at hook H1; plus a scripted scenario that parks a load leader between storing and unregistering (hook H5). Illegal histories are shrunk to a reads-from-closed core. Thorough adds a -race pass.",
    "Sound only for what was observed: ~200 (quick) / ~6000 (thorough) histories. A porcupine timeout is inconclusive. Costs are all 1.",
    "linearizability checking (porcupine) of recorded client-boundary histories")

chk("C03",
    "Deadline oracle in the cache's own virtual time: every TTL write (Set or loader) records (unique value, ttl, time at return); any Get / loading Get / Range visit that yields the value and was invoked at or after that latest-possible deadline is a violation. Cases sweep reads across the deadline (dense, or precisely placed while stalled) and at +1 tick / +35 s / +1 h, for TTLs 1 ns..7 d incl. the 30 s cached-clock window, re-timing in both directions, with maintenance stalled by a held policy lock, a blocked removal listener or a SaveCache into a blocking writer for 0.5 s..2 h of virtual time; plus concurrent real-time sweeps.",
    "Virtual time = shifted clock origin (no client call in flight during a shift). The interval between the true deadline and time-at-return + ttl (nanoseconds to microseconds) is not judged. One open finding (stall >= 30 s) is listed in known_findings.json.",
    "deadline-oracle monitor over recorded reads/writes under virtual time + stall injection")

chk("C06",
    "Reference-model monitor over sequential operation sequences (Set / SetWithTTL / Delete / loading Get / virtual-time steps / ticks / probes; costs 1..room and deliberately above MaxSize through Set, the cost function and the loader; doorkeeper and cost function on/off; plain and loading caches; MaxSize 1..100). The generator keeps model occupancy (live + expired-unreclaimed keys) within MaxSize, so the oracle may demand: Set false only for oversize / doorkeeper first sight and then nothing changes, Set true immediately readable, every live key readable at every probe, never EVICTED, fresh entry after an expired value, oversize values never resident and never displacing anything, reload after an oversize load; final quiescent invariants.",
    "Sequential client (event order = operation order). The cached clock is refreshed at every virtual time step, as a healthy ticker does. TTL-less Set over a still-running TTL is unspecified and not asserted.",
    "reference-model monitor (sequential model with occupancy) over generated histories under virtual time")

chk("C16",
    "Per-goroutine tallies of Get calls / values returned / loader runs are compared with Stats() after concurrent mixed phases (1-32 goroutines, same-key bursts on fresh keys, short TTLs, Len and early-stopping Range mixed in), for plain and loading caches; after a quiet phase and Wait, Len, the full Range, early-stop Range, EstimatedSize and a Get of every key in the universe are cross-checked (cost encoded in the value).",
    "For loading caches a shared load and a hit cannot be told apart at the client boundary, so Hits is bounded (loads <= Misses, Hits <= gets that did not run the loader) while Hits+Misses == gets is exact.",
    "conservation check of counters against per-goroutine operation tallies + cross-view consistency at quiescent points")

chk("C19",
    "The Go race detector (which implies checkptr) is the oracle: dedicated hostile workloads without harness-side synchronisation on the operation path run all API operations (Get/Set/SetWithTTL/Delete/Range/Len/EstimatedSize/Stats/Wait/SaveCache, loader-backed Get, Close racing readers) with a removal listener on plain, loading, hybrid and hybrid-loading caches, tiny and large MaxSize, short TTLs, GOMAXPROCS 2/4/16, each run in its own process. Reports are parsed from the race log, de-duplicated by theine frame set; a report whose stacks contain only harness frames marks the check broken. Evidence lists which op-type pairs were observed overlapping in time.",
    "A clean run is not a proof of race freedom: only interleavings that occurred are judged. Writers racing Close and concurrent Wait callers are exercised by C10/C20 instead (they block forever on the unrepaired tree).",
    "Go race detector over hostile concurrent workloads, reports counted from the race log")

chk("C08",
    "The real Buffer stripe is driven by 2-4 readers under a cooperative scheduler that yields before every atomic step of Add/Free (hook H3), so each execution is one exactly-known interleaving: PCT-priority and random-walk schedules (1-20 adds per reader, prefill 0-15) plus preemption-bounded depth-first enumeration (<=2, thorough <=3 preemptions) of scripts placed around the fill point, including 16 further adds arriving while the previous batch is still held. Per schedule: every delivered id was added, non-zero and delivered at most once, a batch is stable while its token is held, the token is available at quiescence, and 33 further sequential adds deliver a batch. Store level: 2-64 readers during maintenance stalled by a held policy lock / SaveCache into a blocked writer / a blocked removal listener; after release every stripe's head must advance during 128 further hits per stripe and 4096 hits on one key must raise its frequency estimate. Thorough adds a -race pass of the store rounds.",
    "Cooperative scheduling serialises the readers, so memory-ordering effects of truly parallel atomics are only exercised by the store-level rounds. DFS cases that exceed their schedule budget are reported as not enumerated completely; exhaustive is never claimed.",
    "cooperative deterministic scheduler over hook points (PCT + preemption-bounded DFS) with delivery ledger; progress oracle on live stripes")

chk("C09",
    "Generated traces are run against the real cache and a cost-aware reference LRU of the same capacity: hot-set traces (hot keys costing 0.1/0.25/0.5 of MaxSize read 1:1, 1:4, 4:1 against never-read-again inserts; oracle: hit ratio of the hot reads over the last quarter >= 0.97) and Zipf traces (s 1.01/1.1/1.3; oracle: hit ratio >= LRU - 0.005), for MaxSize 50..10000 (thorough: ..100000), unit and mixed costs, plain / loading / hybrid caches (a hit = answered from memory without loader or secondary store), each fresh and after the same workload has been run by 32 goroutines concurrently (reference LRU warmed with the same stream). The adaptive split is sampled during the measured quarter so a loss can be attributed. Quick runs a PRNG-chosen stratified subset (48 traces), thorough the full matrix (720 traces).",
    "Statistical: thresholds come from the property's wording, not from fitting; one open finding (hill climber squeezing the protected region below the hot set at MaxSize <= 1000) is listed in known_findings.json and masks hot-set losses in [0.70,0.97) at those sizes when the squeeze was observed. The pre-use phase deliberately uses the measured trace's own key population: an unrelated saturated population measures adaptation to a workload shift, which TinyLFU does not promise (control experiment in DESIGN.md).",
    "trace-driven monitor: hit/miss log compared with a reference LRU model and a convergence threshold")

chk("C20",
    "Wait calls are timed against writes with a lock-free notification counter and decided by two oracles. Barrier: when a Wait returns, every Delete / Set that had returned before it was called must already be applied (phase mode: maintenance stalled inside a batch, n in {0,1,126..129,255,256,1000} writes then K in {1,2,3,8,64} markers queued at known positions relative to the 128-event batch boundaries; steal mode: writes A, first waiter parked at hook H6 between its marker send and its receive, writes B, second waiter, with the listener holding B's first notification so an early return is observable; mixed mode: 0-32 writers alternating Set/Delete while 1-32 goroutines call Wait repeatedly). Termination: a Wait that does not return is reported only from an observed deadlock state (waiter parked in Store.Wait on a channel, write queue empty, maintenance goroutine idle, identical in two goroutine dumps 150 ms apart).",
    "Positions of markers relative to batches are established through the white-box queue length before maintenance resumes. Every dump-based wait is bounded; running out is inconclusive, never a violation, and the predicate self-tests that it can see its own goroutine.",
    "deadlock-state predicate over goroutine dumps + barrier oracle over recorded call/return/notification counts, hook-driven scheduling")
