# property table consumed by gen_manifest.py
NOT_APPLICABLE = {}

chk("C17",
    "The real CountMinSketch is driven through generated Add/Addn/Estimate/EnsureCapacity sequences (adversarial and random hashes, tables 16..2^18 quick / 2^24 thorough) while an exact reference count and a table copy around every reset decide the lower bound, the exact halving, reset periodicity, bounds (panic) and no-shrink. Sampling of an unbounded input space: held on the executions observed.",
    "Trusts Go's bounds checks to expose out-of-range table accesses and the harness's exact reference counter; table sizes above 2^24 not exercised.",
    "reference-model monitor + invariant assertions on the live sketch")
