#!/usr/bin/env python3
"""Regenerates MANIFEST.json from the table below (kept in one place so the manifest stays valid)."""
import json, subprocess, os
HERE = os.path.dirname(os.path.abspath(__file__))
repo_hook_commits = subprocess.run(["git", "-C", "/repo", "log", "--format=%H", "--grep=^verif:"], stdout=subprocess.PIPE, text=True).stdout.split()

CHECKS = {}
def chk(pid, text, note, technique, cat="exploration", ref=None):
    CHECKS[pid] = dict(
        property_id=pid,
        quick_cmd="./check %s --tier quick" % pid,
        thorough_cmd="./check %s --tier thorough" % pid,
        evidence_file="/verif/evidence/%s.json" % pid,
        replay_cmd_template="./check %s --replay {path}" % pid,
        engine="verifrun",
        level_claimed=dict(category=cat, text=text, design_ref=ref or ("DESIGN.md §3 " + pid)),
        level_note=note,
        technique=technique,
    )

exec(open(os.path.join(HERE, "manifest_checks.py")).read())

props = [json.loads(l)["id"] for l in open(os.path.join(HERE, "properties.jsonl"))]
na = [dict(property_id=p, reason=NOT_APPLICABLE.get(p, "monitor not built yet in this session (work in progress); no claim is made")) for p in props if p not in CHECKS]
m = dict(
    version=1,
    setup_cmd="./check --setup",
    hooks=dict(guard="verif", enable="go build -tags verif -overlay /verif/.build/overlay.json (done by ./check)",
               baseline_off_cmd="cd /repo && GOFLAGS=-mod=mod GOPROXY=off GOSUMDB=off GOTOOLCHAIN=local go test -json -vet=off -count=1 -timeout 25m ./...",
               source_commits=repo_hook_commits, add_only=True),
    engines=[dict(name="verifrun", path="/verif/harness/cmd/verifrun", serves_properties=sorted(CHECKS),
                  kind_free_text="Go monitor binary built against /repo's working tree (tag verif + white-box overlay), driven by /verif/check; race detector, porcupine, reference-model and ledger monitors")],
    checks=[CHECKS[p] for p in props if p in CHECKS],
    notes="All checks are runtime monitors over executions of the real code (see DESIGN.md). Known genuine defects are listed in known_findings.json.",
    not_applicable=na,
)
json.dump(m, open(os.path.join(HERE, "MANIFEST.json"), "w"), indent=1)
print("checks:", len(m["checks"]), "not_applicable:", len(na))
