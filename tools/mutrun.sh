#!/bin/bash
# usage: tools/mutrun.sh <patchfile|-> <check args…>
# Copies /repo's working tree to a scratch dir, applies the patch there, runs ./check against it
# (VERIF_REPO), removes the scratch dir. Evidence/replays written during the run are restored.
set -u
patch="$1"; shift
S=$(mktemp -d /tmp/vscratch.XXXXXX)
rsync -a --exclude .git /repo/ "$S/repo/"
if [ "$patch" != "-" ]; then
  (cd "$S/repo" && git init -q . 2>/dev/null; git -C "$S/repo" apply --whitespace=nowarn "$patch") || { echo "patch failed"; rm -rf "$S"; exit 9; }
fi
cd /verif
cp -r evidence "$S/evidence.bak"; cp -r replays "$S/replays.bak"
VERIF_REPO="$S/repo" ./check "$@"
rc=$?
rm -rf evidence; mv "$S/evidence.bak" evidence
if [ -z "${KEEP_REPLAYS:-}" ]; then rm -rf replays; mv "$S/replays.bak" replays; fi
rm -rf "$S" /verif/.build-alt-*
echo "mutrun rc=$rc"
exit $rc
