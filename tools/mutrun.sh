#!/bin/bash
# usage: tools/mutrun.sh <patchfile|-> <check args…>
# Copies /repo's working tree to a scratch dir, applies the patch there and runs ./check against it (VERIF_REPO).
# The run builds, writes its evidence and its witnesses inside /verif/.build-alt-*/ - nothing of /verif/evidence,
# /verif/replays or /verif/.build is touched, so it can run next to ordinary checks. KEEP_REPLAYS=<dir> copies the
# witnesses there before the scratch directories are removed. Several of these can run side by side: each removes only
# its own build directory.
set -u
patch="$1"; shift
S=$(mktemp -d /tmp/vscratch.XXXXXX)
rsync -a --exclude .git /repo/ "$S/repo/"
if [ "$patch" != "-" ]; then
  (cd "$S/repo" && git init -q . 2>/dev/null; git -C "$S/repo" apply --whitespace=nowarn "$patch") || { echo "patch failed"; rm -rf "$S"; exit 9; }
fi
V=$(cd "$(dirname "$0")/.." && pwd)
cd "$V"
ALT=$V/.build-alt-$(printf %s "$S/repo" | sha1sum | cut -c1-8)
VERIF_REPO="$S/repo" ./check "$@"
rc=$?
if [ -n "${KEEP_REPLAYS:-}" ]; then mkdir -p "$KEEP_REPLAYS"; cp -r "$ALT"/replays/. "$KEEP_REPLAYS"/ 2>/dev/null; fi
rm -rf "$S" "$ALT"
echo "mutrun rc=$rc"
exit $rc
