#!/bin/bash
# usage: tools/intake_auto.sh <P> <variant> <newid>   — derives demo placement and command from the delivery itself
P=$1; v=$2; id=$3; d=/tmp/seed5/$P/$v
demo=$(cd $d && ls zz_demo_*_test.go 2>/dev/null | head -1)
[ -z "$demo" ] && demo=$(cd $d && ls *_test.go | head -1)
pkg=$(grep -m1 '^package ' $d/$demo | awk '{print $2}')
case "$pkg" in
  theine|theine_test) dest=$demo; where=. ;;
  internal) dest=internal/$demo; where=./internal/ ;;
  *) sub=$(cd /repo && grep -rl --include=*.go "^package $pkg\$" internal | head -1 | xargs dirname); dest=$sub/$demo; where=./$sub/ ;;
esac
tests=$(grep -o '^func Test[A-Za-z0-9_]*' $d/$demo | sed 's/func //' | paste -sd'|')
flags="-vet=off -count=1"
grep -q -- '-race' $d/note.md && flags="-race $flags"
grep -q '^//go:build verif' $d/$demo && flags="-tags verif $flags"
echo "[$id] demo=$demo dest=$dest cmd: go test $flags -run '^($tests)\$' $where"
tools/intake.sh $id $d $demo $dest go test $flags -run "^($tests)\$" $where
