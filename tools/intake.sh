#!/bin/bash
# usage: tools/intake.sh <newid> <delivery-dir> <demo-file-name> <demo-dest-rel-to-repo-root> <demo command…>
# Verifies one sub-agent delivery in a scratch worktree (tools/verify_mutant.sh: applies, builds, vets, demonstration
# passes without / fails with the change, suite passes with it) and, only if all of that holds, files it at once under
# /verif/seeded/<newid>/ (patch.diff, the demonstration, the agent's note, meta.json with the facts checked here;
# "breaks"/"needs_to_manifest"/"detected_by" are filled in afterwards by tools/intake_meta.py).
# Nothing is kept under /tmp that the seeded directory needs.
set -u
id="$1"; dir="$2"; demo="$3"; dest="$4"; shift 4
cd /verif
tools/verify_mutant.sh "$id" "$dir/patch.diff" "$dir/$demo" "$dest" "$@" > /tmp/mv/$id.out 2>&1
R=/tmp/mv/$id.result
python3 - "$id" "$dir" "$demo" "$dest" "$@" <<'PY'
import json, os, re, shutil, sys, subprocess
i, src, demo, dest = sys.argv[1:5]; cmd = sys.argv[5:]
res = open('/tmp/mv/%s.result' % i).read()
f = dict(re.findall(r'^(\w+)=(.*)$', res, re.M))
problems = []
if f.get('apply') != 'ok': problems.append('patch does not apply')
if f.get('build') != 'ok': problems.append('does not build')
if f.get('vet') != 'ok': problems.append('vet fails')
if f.get('demo_clean_rc') != '0': problems.append('demonstration fails WITHOUT the change')
if f.get('demo_mut_rc') == '0': problems.append('demonstration passes WITH the change')
retries = re.findall(r'^retry (\S+) alone: pass=(\d)', res, re.M)
if not all(p == '1' for _, p in retries): problems.append('suite fails with the change: %s' % [t for t, p in retries if p != '1'])
m = re.search(r'suite_baseline_pass=(\d+)/(\d+)', res)
if not m: problems.append('suite did not run')
if problems:
    print('REJECTED', i, '; '.join(problems)); sys.exit(1)
suite = '%s/%s' % (m.group(1), m.group(2))
if retries:
    suite += ' in the loaded full run; ' + ', '.join(t.split('::')[1] for t, _ in retries) + ' passed when re-run alone (load-flaky on the unchanged tree too)'
d = '/verif/seeded/' + i
os.makedirs(d, exist_ok=True)
shutil.copy(src + '/patch.diff', d + '/patch.diff')
shutil.copy(src + '/' + demo, d + '/' + demo)
if os.path.exists(src + '/note.md'): shutil.copy(src + '/note.md', d + '/README.agent.md')
head = subprocess.run(['git', '-C', '/repo', 'rev-parse', '--short', 'HEAD'], stdout=subprocess.PIPE, text=True).stdout.strip()
meta = {"id": i, "property": i[:3], "breaks": "", "needs_to_manifest": "",
        "origin": "independent sub-agent given only the property text, the one-line list of earlier changes for that property, and its own scratch worktree of /repo",
        "demonstration": {"file": demo, "place_at": dest, "command": ' '.join(cmd), "without_change": "passes", "with_change": "fails"},
        "verified_against": head,
        "what_i_ran": ["tools/verify_mutant.sh in a scratch worktree of /repo HEAD: git apply, go build ./..., go vet ./..., demonstration without and with the change, full suite with the change (tests failing in the loaded full run re-run alone)",
                       "tools/mutrun.sh <patch> <check>: the registered check against a scratch copy of /repo with the change applied"],
        "suite_with_change": suite, "detected_by": ""}
json.dump(meta, open(d + '/meta.json', 'w'), indent=1)
print('ACCEPTED', i, 'suite', suite)
PY
