#!/bin/bash
# usage: tools/seeded_matrix.sh [id…]   (default: every $V/seeded/<id>)
# For every seeded change: does its patch still apply to /repo's working tree, and does the registered check of its
# property (quick tier, then thorough if quick stays silent) report a violation against a scratch copy with the
# change applied? Prints one line per change; nothing under /verif/evidence or /verif/replays is touched.
V=$(cd "$(dirname "$0")/.." && pwd); cd "$V"
ids=("$@"); [ ${#ids[@]} -eq 0 ] && ids=($(ls seeded | grep -E '^C[0-9]{2}[a-z]$'))
for id in "${ids[@]}"; do
  p=${id:0:3}; patch=$V/seeded/$id/patch.diff
  # a change whose original patch no longer applies after later repairs is kept rebased next to the original
  [ -f $V/seeded/$id/patch.rebased.diff ] && patch=$V/seeded/$id/patch.rebased.diff
  if ! git -C /repo apply --check "$patch" 2>/dev/null; then echo "$id patch-does-not-apply-to-current-tree"; continue; fi
  res=silent
  for tier in quick thorough; do
    out=$(timeout 7200 tools/mutrun.sh "$patch" $p --tier $tier --seed ${SEED:-1} 2>&1)
    if echo "$out" | grep -q '^VIOLATION'; then res="caught tier=$tier $(echo "$out" | grep '^VIOLATION' | head -1 | sed 's#.*/replays/##' | cut -c1-90)"; break; fi
    if echo "$out" | grep -q 'BROKEN'; then res="check-broken tier=$tier"; break; fi
    [ -n "${QUICK_ONLY:-}" ] && break
  done
  echo "$id $res"
done
