#!/usr/bin/env python3
"""Fifth wave of seeded changes: one table, used for seeded/<id>/meta.json and for the DESIGN.md rows (prints them)."""
import json, os, sys
ROWS = [
 ("C01h", "Range callbacks run on a snapshot taken under the locks (helper in cache.go), after the locks are released", "slow or cache-modifying callbacks; a Set / Delete of a not yet visited key completing before its visit", "C01 (`stale-read/range-visit-after-overwrite`)", ""),
 ("C01i", "pre-1.24 hasher: integer keys take a fast path that always reads 8 bytes", "key type int8/16/32 or uint8/16/32 and different stack contents between two calls", "C18 (`equal-key-missed/int8`, ...); C01 silent (its keys are int)", ""),
 ("C02h", "an insert event arriving after its entry's deadline reclaims the entry and then still admits it to the policy", "TTL shorter than the event's time in the write queue", "C02 (`ghost-in-policy`)", ""),
 ("C02i", "the maintenance loop stops applying a batch at the Wait marker (`continue` -> `break`): what shares the batch behind the marker is dropped", "Wait called while another goroutine writes", "C02 (`resident-untracked`, `ghost-in-policy`)", "**missed at first** (no Wait ever ran next to writers in C02) -> a goroutine calling Wait during the stress phases"),
 ("C03i", "`HybridBuilder.Loading` wraps the loader and drops the TTL", "route Hybrid(s).Loading(l), loader returning a TTL, Get after the deadline", "C03 (life scripts: `served-expired/from-secondary-tier/...`)", ""),
 ("C04h", "a new deadline re-schedules only when it is at least a second later than the old one (or the first)", "SetWithTTL shortening the TTL of an entry on the wheel", "C04 (`late-reclaim/store/...`)", ""),
 ("C04i", "the expiry re-check reads the cached clock, and the ticker refreshes the cache before it waits for the policy lock", "policy lock held by somebody else when the tick fires, deadlines falling into that wait", "C04 (`late-reclaim/store/never-retimed`)", "two sites, each harmless alone"),
 ("C05h", "expiry of an entry that is in the map but not yet in a policy list removes it without telling the listener", "TTL running out before the entry's own insert event is applied", "C05 (`no-notification/evicted-or-expired-entry`)", ""),
 ("C05i", "an UPDATE event carrying a deadline that has already passed removes the entry through the policy's eviction path: reason EVICTED", "SetWithTTL over a resident, policy-known key with a TTL shorter than the event latency", "C05 (`wrong-reason/deadline-passed-before-its-event-was-applied/EVICTED`)", "**missed everywhere at first** (no round pairs a never-full cache with such TTLs) -> deadline-before-event arm"),
 ("C06h", "Set's oversize test is `>=`", "cost exactly MaxSize", "C06 (`set-false-without-reason`)", ""),
 ("C06i", "the doorkeeper is consulted before the resident-key lookup", "doorkeeper on, resident key, its shard's filter replaced or cleared since, then an update of the key", "C06 (`set-false-for-a-resident-key/doorkeeper/after-one-off-churn`)", "**missed at first** -> resident keys updated after churn"),
 ("C07h", "fast path for an unsegmentable main region touches the entry in the wrong list", "MaxSize 2 and a read of the entry in probation", "C07 (`region-size-mismatch`)", ""),
 ("C07i", "a cost increase of a window entry checks only the window's own bound", "full cache, spare room in the window, a window entry growing", "C07 (`over-capacity-after-set`)", ""),
 ("C08h", "Buffer.Add tests `size == capacity`", "a reader delayed between its loads of head and tail across a full round of the stripe", "C08 (`stripe-wedged...`, `stripe-dead`)", "**quick missed at first** (no yield point between the two loads; the thorough tier's store-level stress caught it) -> hook H8; rebased onto the hook commit"),
 ("C08i", "with the entry pool on, the recycled-entry re-check of a pending read event is skipped for entries that are linked in the policy", "entry pool, a hit still pending in a stripe when its entry is reclaimed and reused for another key", "C08 (`read-events-invented/never-read-key-promoted/entry-pool`)", "**missed everywhere at first** (the no-invention rounds ran with the pool off) -> pooled no-invention rounds"),
 ("C09h", "the loading cache's hit path frees its stripe before the batch is applied: loading caches never deliver a read to the policy", "loading builder routes", "C09 (`hot-set-lost/loading/...`)", ""),
 ("C09i", "a probation hit promotes only while the protected region has room", "an earlier working set about the size of the cache, each key read twice, then the hot-set workload", "@C09i@", ""),
 ("C10h", "Close resets the read buffers while holding the policy lock (Buffer.Clear spins for the drain token)", "Close overlapping a reader that holds a stripe's token and is queued for the policy lock", "@C10h@", ""),
 ("C10i", "the ticker goroutine drains the write queue on shutdown and can block on a receive nobody will answer", "write backlog at Close and one particular interleaving (a few per thousand)", "@C10i@", ""),
 ("C11h", "LoadCache refreshes the cached clock only when the adopted clock steps backwards", "saving cache up for 30 s longer than the receiving one, deadline within the first second", "**no longer applies**", "the lines it edits were removed by repair `681c5f0` before the matrix ran; the same change was delivered for C03 (not stored)"),
 ("C11i", "Recover indexes an entry before the room check and keeps it in the map when the check fails", "target of another size (a region closes)", "C11 (`loaded-cache-inconsistent/resident-untracked`)", "rebased onto `681c5f0`"),
 ("C12h", "a block whose checksum field is zero is not verified", "two damaged spots: the field name in the type descriptor and a payload byte", "C12 (`loaded-wrong-value-or-cost/pair`)", "**missed at first** (every mutant damaged one spot) -> two-spot mutants"),
 ("C12i", "an empty reader counts as nothing to load", "truncation at offset 0", "C12 (`truncated-stream-accepted`)", ""),
 ("C13h", "after a panicked load the leader returns the call record to the pool while waiters still hold it", "loader panic with waiters, another load in the shard right after", "C13 (`get-failed-with-foreign-failure`)", ""),
 ("C13i", "a negative loader TTL is stored as no deadline", "loader returning TTL < 0", "@C13i@", ""),
 ("C14h", "the hand-off worker re-checks the key's existence, not the entry's identity", "evict, Delete, Set again, worker drains, new value leaves memory unwritten", "C14 (`stale-read/get-after-overwrite/answered-from-secondary-tier`)", "undoes `0a6e176`"),
 ("C14i", "a finished promotion stays registered until the singleflight clean-up", "Delete between the shard unlock and the clean-up, then Get", "C14 (`stale-read/get-after-delete/...`)", "undoes `0d1c3c8`"),
 ("C15h", "Set releases the shard lock before it invalidates the secondary copy", "in-place Set of a resident key, eviction and hand-off of it inside the window", "C15 (`evicted-entry-not-retrievable/overwritten-while-its-invalidation-of-the-secondary-copy-was-slow`)", "**missed at first** -> slow-invalidation script"),
 ("C15i", "`LoadingBuilder.Hybrid` leaves the admission probability at 0 on its copy of the options", "route Loading(l).Hybrid(s), first call", "C15 (`evicted-entry-not-retrievable/reloaded-instead/...`)", ""),
 ("C16h", "a load that stores over a resident entry is announced as an insert", "loading cache, key still in the map when the Get misses", "C16 (`estimatedsize!=sum-of-costs`)", ""),
 ("C16i", "an entry whose policy weight exceeds the capacity is unlinked from the policy but stays in the map", "two Sets of one key applied in reverse order, costs near MaxSize", "C16 (`estimatedsize!=sum-of-costs/cost-deltas-applied-in-reverse-order`), C02 (`resident-untracked`), C06", "**C16 missed at first** (no arm with reordered events) -> the reordered-cost-delta script shared with C06, judged on the size views"),
 ("C17h", "the aging reset skips words that hold no odd counter", "a reset while some word holds only even non-zero counters", "C17 (`reset-not-halving`)", ""),
 ("C17i", "a capacity request that does not grow the table restarts the sample period", "additions, EnsureCapacity(n <= len), additions", "C17 (`reset-overdue/...`)", ""),
 ("C18h", "pre-1.24 hasher: keys up to 8 bytes are loaded as a machine word (exact for 1, 2, 4, 8)", "key types of 3, 5, 6 or 7 bytes and different stack contents between two calls", "C18 (`equal-key-missed/[3]byte`, ...)", "**missed at first** (no such size in the matrix)"),
 ("C18i", "pre-1.24 hasher: the key's address is taken from an interface data word, so pointer-shaped keys are hashed by their pointee", "pointer, struct{*T} or [1]*T keys whose pointee changes between two operations", "C18 (`equal-key-missed/*int (pointee rewritten between operations)`, ...)", "**missed at first** (pointees never changed)"),
 ("C19h", "the read buffer's drain token is read without an atomic load on the full-stripe path", "a stripe found full while its token is held", "C19 (race reports)", ""),
 ("C19i", "`Entry.rewritten` becomes a plain bool", "hybrid cache: promoted entry evicted while a Set rewrites it", "C19 (race reports)", ""),
 ("C20h", "a full write queue drops events that neither insert, remove, nor change cost or deadline - the Wait marker among them", "queue full at the moment Wait sends its marker", "@C20h@", ""),
 ("C20i", "Delete of an entry past its deadline sends no REMOVE event", "Delete between the deadline and the sweep, then Wait", "@C20i@", ""),
]
RESULTS = json.load(open(os.path.join(os.path.dirname(__file__), "wave5_results.json"))) if os.path.exists(os.path.join(os.path.dirname(__file__), "wave5_results.json")) else {}
out = []
for i, breaks, needs, det, note in ROWS:
    if det.startswith("@"):
        det = RESULTS.get(i, "not evaluated")
    p = "/verif/seeded/%s/meta.json" % i
    if os.path.exists(p):
        m = json.load(open(p)); m["breaks"] = breaks; m["needs_to_manifest"] = needs; m["detected_by"] = det + (" - " + note if note else "")
        json.dump(m, open(p, "w"), indent=1, ensure_ascii=False)
    out.append("| %s | %s | %s | %s | %s |" % (i, breaks, needs, det, note))
print("\n".join(out))
