#!/bin/bash
# usage: tools/sweep.sh <seed> [tier] [ids…] — every quick (or thorough) check once against a scratch copy of /repo's
# working tree, evidence and witnesses kept out of /verif/evidence; one summary line per property on stdout.
V=$(cd "$(dirname "$0")/.." && pwd); cd "$V"
seed=$1; tier=${2:-quick}; shift 2 2>/dev/null
ids=("$@"); [ ${#ids[@]} -eq 0 ] && ids=($(seq -f 'C%02g' 1 20))
mkdir -p /tmp/sweep
for p in "${ids[@]}"; do
  SECONDS=0
  tools/mutrun.sh - $p --tier $tier --seed $seed > /tmp/sweep/$p.$tier.s$seed.log 2>&1
  echo "$p seed=$seed tier=$tier rc=$? ${SECONDS}s $(grep -E '^(VIOLATION|KNOWN-FINDING|BROKEN|OK)' /tmp/sweep/$p.$tier.s$seed.log | cut -c1-160 | tr '\n' ';')"
done
