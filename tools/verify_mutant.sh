#!/bin/bash
# usage: verify_mutant.sh <label> <patch> <demo_src> <demo_dest_rel> <demo_cmd...>
# Confirms, in a scratch worktree of /repo's HEAD: patch applies, builds, vets; demo fails with the patch
# and passes without; full suite passes with the patch. Writes /tmp/mv/<label>.result
set -u
label="$1"; patch="$2"; demo_src="$3"; demo_dest="$4"; shift 4
export GOFLAGS=-mod=mod GOPROXY=off GOSUMDB=off GOTOOLCHAIN=local
mkdir -p /tmp/mv
WT=/tmp/mv/$label
R=/tmp/mv/$label.result
rm -rf "$WT"; git -C /repo worktree prune
git -C /repo worktree add -q --detach "$WT" HEAD || { echo "worktree failed" > $R; exit 1; }
cd "$WT"
{
echo "label=$label base=$(git rev-parse --short HEAD)"
mkdir -p "$(dirname "$demo_dest")"; cp "$demo_src" "$demo_dest"
echo "--- demo WITHOUT patch"; ( "$@" ) > /tmp/mv/$label.demo_clean.log 2>&1; echo "demo_clean_rc=$?"
if git apply --whitespace=nowarn "$patch"; then echo "apply=ok"; else echo "apply=FAILED"; fi
go build ./... && echo "build=ok" || echo "build=FAILED"
go vet ./... >/dev/null 2>&1 && echo "vet=ok" || echo "vet=FAILED"
echo "--- demo WITH patch"; ( "$@" ) > /tmp/mv/$label.demo_mut.log 2>&1; echo "demo_mut_rc=$?"
rm -f "$demo_dest"
go test -json -vet=off -count=1 -timeout 25m ./... > /tmp/mv/$label.suite.json 2>&1; echo "suite_rc=$?"
python3 - "$label" <<'PY'
import json,sys
res={}
for l in open('/tmp/mv/%s.suite.json'%sys.argv[1]):
    try: e=json.loads(l)
    except: continue
    if e.get('Action') in('pass','fail') and e.get('Test'): res[e['Package']+'::'+e['Test']]=e['Action']
b=json.load(open('/root/.vp/BASELINE.json'))['stable_pass']
bad=[t for t in b if res.get(t)!='pass']
print("suite_baseline_pass=%d/%d not_passing=%s"%(len(b)-len(bad),len(b),bad))
open('/tmp/mv/%s.retry'%sys.argv[1],'w').write("".join(b+"\n" for b in bad))
PY
# tests that failed in the loaded full run are re-run alone (known to flake under CPU load on the unchanged tree too)
while read -r t; do
  [ -z "$t" ] && continue
  pkg="${t%%::*}"; name="${t##*::}"; name="${name%%/*}"
  ok=0
  for a in 1 2 3; do if go test -vet=off -count=1 -run "^${name}\$" "$pkg" >/dev/null 2>&1; then ok=1; break; fi; done
  echo "retry $t alone: pass=$ok"
done < /tmp/mv/$label.retry
} > $R 2>&1
cd /; git -C /repo worktree remove --force "$WT"; rm -f /tmp/mv/$label.suite.json
cat $R
