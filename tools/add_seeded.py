#!/usr/bin/env python3
"""usage: tools/add_seeded.py <verify-script> <id>...
Assembles /verif/seeded/<id>/ from an agent's delivery (/tmp/seed/<P>/<v>/), the line of the verify script that
checked it (demo file, place, command), my verification result (/tmp/mv/<id>.result) and the row of DESIGN.md 8.4."""
import json, os, re, shlex, shutil, sys
script, ids = sys.argv[1], sys.argv[2:]
rows = {}
for l in open('/verif/DESIGN.md'):
    c = [x.strip() for x in l.strip().strip('|').split(' | ')] if l.startswith('| C') else []
    if len(c) >= 4 and re.fullmatch(r'C\d\d[a-h]', c[0]): rows[c[0]] = (c + [''])[:5]
lines = {}
for l in open(script):
    if l.startswith('$V '):
        a = shlex.split(l.replace('$V', 'V').replace('$S', '/tmp/seed'))
        lines[a[1]] = a
for i in ids:
    a = lines[i]; patch, demo_src, demo_dest, cmd = a[2], a[3], a[4], a[5:]
    res = open('/tmp/mv/%s.result' % i).read()
    f = dict(re.findall(r'^(\w+)=(.*)$', res, re.M))
    assert f['apply'] == 'ok' and f['build'] == 'ok' and f['vet'] == 'ok', (i, f)
    assert f['demo_clean_rc'] == '0' and f['demo_mut_rc'] != '0', (i, 'demo', f)
    retries = re.findall(r'^retry (\S+) alone: pass=(\d)', res, re.M)
    assert all(p == '1' for _, p in retries), (i, retries)
    m = re.search(r'suite_baseline_pass=(\d+)/(\d+) not_passing=(.*)', res)
    suite = '%s/%s' % (m.group(1), m.group(2))
    if retries:
        suite += ' in the loaded full run; ' + ', '.join(t.split('::')[1] for t, _ in retries) + ' passed when re-run alone (load-flaky on the unchanged tree too): 136/136'
    d = '/verif/seeded/' + i
    os.makedirs(d, exist_ok=True)
    shutil.copy(patch, d + '/patch.diff')
    demo_name = os.path.basename(demo_src)
    shutil.copy(demo_src, d + '/' + demo_name)
    src = os.path.dirname(patch)
    for readme in ('/README.md', '/note.md'):
        if os.path.exists(src + readme): shutil.copy(src + readme, d + '/README.agent.md')
    if patch.endswith('.rebased.diff') and os.path.exists(src + '/patch.diff'):
        shutil.copy(src + '/patch.diff', d + '/patch.original.diff')
    r = rows[i]
    meta = {"id": i, "property": i[:3], "breaks": r[1], "needs_to_manifest": r[2],
            "origin": "independent sub-agent given only the property text and its own scratch worktree of /repo",
            "demonstration": {"file": demo_name, "place_at": demo_dest, "command": ' '.join(shlex.quote(c) if re.search(r"[^\w./=-]", c) else c for c in cmd),
                              "without_change": "passes", "with_change": "fails"},
            "verified_against": f.get('label', '').split('base=')[-1] if 'label' in f else None,
            "what_i_ran": ["tools/verify_mutant.sh in a scratch worktree of /repo HEAD: git apply, go build ./..., go vet ./..., demonstration without and with the change, full suite with the change (tests failing in the loaded full run re-run alone)",
                           "tools/mutrun.sh <patch> <check>: the registered check against a scratch copy of /repo with the change applied"],
            "suite_with_change": suite, "detected_by": r[3] + ((' — ' + r[4]) if r[4].strip() else '')}
    m2 = re.search(r'^label=\S+ base=(\w+)', res, re.M)
    meta["verified_against"] = m2.group(1) if m2 else None
    json.dump(meta, open(d + '/meta.json', 'w'), indent=1, ensure_ascii=False)
    print('added', i, suite[:40])
