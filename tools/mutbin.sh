#!/bin/bash
# usage: tools/mutbin.sh <patchfile|-> <out-binary> [go build flags…]
# Builds the verifrun monitor binary against a scratch copy of /repo's working tree with the patch applied
# (for running single shards under a short timeout). The scratch copy is removed afterwards.
set -eu
patch="$1"; out="$2"; shift 2
export GOFLAGS=-mod=mod GOPROXY=off GOSUMDB=off GOTOOLCHAIN=local
S=$(mktemp -d /tmp/mutbin.XXXXXX)
trap 'rm -rf "$S"' EXIT
rsync -a --exclude .git /repo/ "$S/repo/"
if [ "$patch" != "-" ]; then (cd "$S/repo" && git init -q . && git apply --whitespace=nowarn "$patch"); fi
sed "s#=> /repo#=> $S/repo#" /verif/harness/go.mod > "$S/go.alt.mod"; cp /verif/harness/go.sum "$S/go.alt.sum"
python3 - "$S" <<'PY'
import json,sys
S=sys.argv[1]
json.dump({"Replace":{S+"/repo/internal/zz_verif_export.go":"/verif/harness/wb/internal_export.go.txt",S+"/repo/zz_verif_export.go":"/verif/harness/wb/theine_export.go.txt"}},open(S+"/overlay.json","w"))
PY
cd /verif/harness && go build -tags verif -overlay "$S/overlay.json" -modfile="$S/go.alt.mod" "$@" -o "$out" ./cmd/verifrun
echo "built $out"
