#!/usr/bin/env python3
"""usage: tools/intake_meta.py <id> <breaks> <needs_to_manifest> <detected_by>  — fills the free-text fields of seeded/<id>/meta.json"""
import json, sys
i, breaks, needs, det = sys.argv[1:5]
p = '/verif/seeded/%s/meta.json' % i
m = json.load(open(p)); m['breaks'] = breaks; m['needs_to_manifest'] = needs; m['detected_by'] = det
json.dump(m, open(p, 'w'), indent=1, ensure_ascii=False)
