#!/bin/bash
# usage: tools/suite.sh [dir]   runs the pinned suite (hooks off) in dir (default /repo) and compares with BASELINE.json
D="${1:-/repo}"
export GOFLAGS=-mod=mod GOPROXY=off GOSUMDB=off GOTOOLCHAIN=local
cd "$D" && go test -json -vet=off -count=1 -timeout 25m ./... > /tmp/suite.$$.json 2>&1
python3 - /tmp/suite.$$.json <<'PY'
import json,sys
res={}
for l in open(sys.argv[1]):
    try: e=json.loads(l)
    except: continue
    if e.get('Action') in('pass','fail') and e.get('Test'): res[e['Package']+'::'+e['Test']]=e['Action']
b=json.load(open('/root/.vp/BASELINE.json'))['stable_pass']
bad=[t for t in b if res.get(t)!='pass']
print("suite_baseline_pass=%d/%d not_passing=%s"%(len(b)-len(bad),len(b),bad))
PY
rm -f /tmp/suite.$$.json
