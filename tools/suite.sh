#!/bin/bash
# usage: tools/suite.sh [dir]   runs the pinned suite (hooks off) in dir (default /repo) and compares with BASELINE.json.
# Tests that fail in the full run are re-run alone up to 3 times (a few timing-sensitive tests flake on a loaded machine,
# on the unchanged tree as well); the last line says whether every baseline test passed in the full run or alone.
D="${1:-/repo}"
export GOFLAGS=-mod=mod GOPROXY=off GOSUMDB=off GOTOOLCHAIN=local
T=/tmp/suite.$$
cd "$D" && go test -json -vet=off -count=1 -timeout 25m ./... > $T.json 2>&1
python3 - $T.json $T.retry <<'PY'
import json,sys
res={}
for l in open(sys.argv[1]):
    try: e=json.loads(l)
    except: continue
    if e.get('Action') in('pass','fail') and e.get('Test'): res[e['Package']+'::'+e['Test']]=e['Action']
b=json.load(open('/root/.vp/BASELINE.json'))['stable_pass']
bad=[t for t in b if res.get(t)!='pass']
print("suite_baseline_pass=%d/%d not_passing=%s"%(len(b)-len(bad),len(b),bad))
def top(t):
    pkg,_,name=t.partition('::')
    return pkg+'::'+name.split('/')[0]      # drop the subtest part of the test name only
tops=sorted(set(top(t) for t in bad))
open(sys.argv[2],'w').write("".join(x+"\n" for x in tops))
print("to_retry=%d"%len(tops))
PY
still=0
expected=$(wc -l < $T.retry)
done_n=0
while read -r t <&3; do
  [ -z "$t" ] && continue
  pkg="${t%%::*}"; name="${t##*::}"
  ok=0
  for a in 1 2 3; do if (cd "$D" && go test -vet=off -count=1 -run "^${name}\$" "$pkg" >/dev/null 2>&1); then ok=1; break; fi; done
  echo "retry $t alone: pass=$ok"
  done_n=$((done_n+1))
  [ $ok = 1 ] || still=1
done 3< $T.retry
# fail closed: every test that needed a retry must actually have been retried
[ "$done_n" = "$expected" ] || { echo "SUITE-SCRIPT-ERROR retried $done_n of $expected"; still=1; }
[ $still = 0 ] && echo "SUITE-OK (all baseline tests pass, in the full run or alone)" || echo "SUITE-FAILED"
rm -f $T.json $T.retry
